package main

import (
	"fmt"
	"go/constant"
	"go/types"
	"sort"
	"sync"

	"golang.org/x/tools/go/ssa"
)

// Constant dictionaries: verifrt.DictString(name, pkg, extra) yields, as one forked choice per
// entry, a string literal that occurs in the current SSA of package pkg (or the empty string)
// followed by 0..extra fully symbolic bytes. The dictionary is recomputed from /repo's source on
// every run, so a literal the code starts comparing against becomes an input automatically.

var (
	dictMu    sync.Mutex
	dictCache = map[string][]string{}
)

func dictLiteralOK(s string) bool {
	if len(s) == 0 || len(s) > 10 {
		return false
	}
	for i := 0; i < len(s); i++ {
		c := s[i]
		if c <= ' ' || c >= 0x7f || c == '%' {
			return false
		}
	}
	return true
}

func packageDict(prog *ssa.Program, pkgPath string) []string {
	dictMu.Lock()
	defer dictMu.Unlock()
	if d, ok := dictCache[pkgPath]; ok {
		return d
	}
	var pkg *ssa.Package
	for _, p := range prog.AllPackages() {
		if p.Pkg.Path() == pkgPath {
			pkg = p
		}
	}
	if pkg == nil {
		panic(engineErr("DictString: package %q is not part of the loaded program", pkgPath))
	}
	set := map[string]bool{}
	var visit func(f *ssa.Function)
	seen := map[*ssa.Function]bool{}
	visit = func(f *ssa.Function) {
		if f == nil || seen[f] {
			return
		}
		seen[f] = true
		for _, b := range f.Blocks {
			for _, ins := range b.Instrs {
				for _, op := range ins.Operands(nil) {
					if op == nil || *op == nil {
						continue
					}
					if c, ok := (*op).(*ssa.Const); ok && c.Value != nil && c.Value.Kind() == constant.String {
						if s := constant.StringVal(c.Value); dictLiteralOK(s) {
							set[s] = true
						}
					}
				}
			}
		}
		for _, a := range f.AnonFuncs {
			visit(a)
		}
	}
	for _, m := range pkg.Members {
		switch m := m.(type) {
		case *ssa.Function:
			if m.Name() != "init" && len(m.Name()) >= 5 && m.Name()[:5] == "Verif" {
				continue // harness code is not part of the code under test
			}
			visit(m)
		case *ssa.Type:
			for _, t := range []types.Type{m.Type(), types.NewPointer(m.Type())} {
				ms := prog.MethodSets.MethodSet(t)
				for i := 0; i < ms.Len(); i++ {
					if fn := prog.MethodValue(ms.At(i)); fn != nil && fn.Pkg == pkg {
						visit(fn)
					}
				}
			}
		}
	}
	var out []string
	for s := range set {
		out = append(out, s)
	}
	sort.Strings(out)
	dictCache[pkgPath] = out
	return out
}

func init() {
	reg(rtPkg+"DictString", func(fr *frame, args []Value) Value {
		it := fr.it
		name, pkgPath, extra := argStr(args[0]), argStr(args[1]), argInt(args[2])
		dict := packageDict(it.prog, pkgPath)
		k := it.choose('k', len(dict)+1)
		prefix := ""
		if k < len(dict) {
			prefix = dict[k]
		}
		x := it.choose('k', extra+1)
		p := it.path
		p.events = append(p.events, NondetEvent{Name: name + ".len", W: 64, Value: uint64(len(prefix) + x)})
		p.nondetSeq++
		b := make([]*Term, 0, len(prefix)+x)
		for i := 0; i < len(prefix); i++ {
			p.events = append(p.events, NondetEvent{Name: fmt.Sprintf("%s[%d]", name, i), W: 8, Value: uint64(prefix[i])})
			p.nondetSeq++
			b = append(b, it.tt.Const(8, uint64(prefix[i])))
		}
		for i := len(prefix); i < len(prefix)+x; i++ {
			b = append(b, it.nondet(fmt.Sprintf("%s[%d]", name, i), 8))
		}
		return Str{b}
	})
}

// sort.Slice / sort.SliceStable use reflection (reflectlite.Swapper) to swap elements; here the
// slice is sorted in place by a stable insertion sort that calls the real less function (each
// comparison on symbolic data forks like any other branch). Both get the stable order, which is one
// of the orders sort.Slice may produce.
func init() {
	sortSlice := func(fr *frame, args []Value) Value {
		it := fr.it
		ifc, ok := args[0].(Iface)
		if !ok {
			panic(engineErr("sort.Slice on %T", args[0]))
		}
		sl, ok := ifc.v.([]Value)
		if !ok {
			if n, _ := isNilValue(ifc); n || ifc.v == nil {
				return nil
			}
			panic(engineErr("sort.Slice on %T", ifc.v))
		}
		less := func(i, j int) bool {
			r := it.call(fr, nil, args[1], []Value{it.mkInt(i), it.mkInt(j)})
			t, ok := r.(*Term)
			if !ok {
				panic(engineErr("sort.Slice less returned %T", r))
			}
			return it.branch(t)
		}
		for i := 1; i < len(sl); i++ {
			for j := i; j > 0 && less(j, j-1); j-- {
				a, b := sl[j], sl[j-1]
				it.store(&sl[j], b)
				it.store(&sl[j-1], a)
			}
		}
		return nil
	}
	reg("sort.Slice", sortSlice)
	reg("sort.SliceStable", sortSlice)
}
