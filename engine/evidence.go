package main

import (
	"encoding/json"
	"fmt"
	"os"
	"os/exec"
	"path/filepath"
	"sort"
	"strings"
)

var evidenceDirOverride string

type Coverage struct {
	States             int64            `json:"states"`
	Transitions        int64            `json:"transitions"`
	TracesValidated    int              `json:"traces_validated_against_impl"`
	Samples            []string         `json:"samples"`
	Exhaustive         bool             `json:"exhaustive"`
	Explanation        string           `json:"explanation,omitempty"`
	FunctionsEncoded   []string         `json:"functions_encoded"`
	Bounds             map[string]string `json:"bounds,omitempty"`
	Harnesses          []HarnessSummary `json:"harnesses"`
	Queries            map[string]int64 `json:"queries"`
	SolverTimeS        float64          `json:"solver_time_s"`
	Solvers            []string         `json:"solvers"`
	MaxPathInstr       int64            `json:"max_path_instructions"`
	InstrBudget        int64            `json:"instruction_budget"`
	Inconclusive       []string         `json:"inconclusive,omitempty"`
	Intrinsics         []string         `json:"intrinsics_touched"`
	LoadS              float64          `json:"load_s"`
	RepoHead           string           `json:"repo_head"`
	RepoDirty          bool             `json:"repo_dirty"`
}

type HarnessSummary struct {
	Name         string           `json:"name"`
	Paths        int64            `json:"paths"`
	PathsDone    int64            `json:"paths_reaching_end"`
	PathsVacuous int64            `json:"paths_cut_by_assume"`
	Decisions    int64            `json:"decisions"`
	Instructions int64            `json:"instructions"`
	MaxPathInstr int64            `json:"max_path_instructions"`
	Assertions   map[string]int64 `json:"assertions_checked"`
	Violations   int              `json:"violations_found"`
	Concurrent   bool             `json:"interleavings_explored,omitempty"`
	Uncovered    int64            `json:"paths_not_covered,omitempty"`
	UncoveredWhy []string         `json:"not_covered_because,omitempty"`
	WallS        float64          `json:"wall_s"`
}

type Evidence struct {
	PropertyID  string   `json:"property_id"`
	Tier        string   `json:"tier"`
	Seed        int64    `json:"seed"`
	Level       string   `json:"level"`
	Coverage    Coverage `json:"coverage"`
	Assumptions []string `json:"assumptions"`
	WallS       float64  `json:"wall_s"`
	Violations  int      `json:"violations"`
}

// manifestBounds copies the bounds this property's check states in MANIFEST.json (level_note and
// the level text) into the evidence, next to the measured per-harness figures.
func manifestBounds(prop, tier string) map[string]string {
	b, err := os.ReadFile(filepath.Join(verifRoot(), "MANIFEST.json"))
	if err != nil {
		return nil
	}
	var m struct {
		Checks []struct {
			PropertyID   string `json:"property_id"`
			LevelNote    string `json:"level_note"`
			LevelClaimed struct {
				Text string `json:"text"`
			} `json:"level_claimed"`
		} `json:"checks"`
	}
	if json.Unmarshal(b, &m) != nil {
		return nil
	}
	for _, c := range m.Checks {
		if c.PropertyID == prop {
			return map[string]string{"tier": tier, "stated_in_manifest": c.LevelNote, "what_is_encoded": c.LevelClaimed.Text,
				"per_harness": "see coverage.harnesses: paths, decisions, assertions checked per label, maximum path length"}
		}
	}
	return nil
}

func (ev *Evidence) fill(results []*HarnessResult, ld *Loaded, cfg Config, validated, nviol int) {
	c := &ev.Coverage
	c.Bounds = manifestBounds(ev.PropertyID, ev.Tier)
	funcs := map[string]bool{}
	intr := map[string]bool{}
	c.Queries = map[string]int64{}
	for _, r := range results {
		c.States += r.Paths
		c.Transitions += r.Decisions
		c.Samples = append(c.Samples, r.Samples...)
		for f := range r.Funcs {
			funcs[f] = true
		}
		for f := range r.Intrinsics {
			intr[f] = true
		}
		c.Queries["total"] += r.SolverChecks
		c.Queries["sat"] += r.SolverSat
		c.Queries["unsat"] += r.SolverUnsat
		c.Queries["unknown"] += r.SolverUnknown
		c.Queries["assertion"] += r.AssertQueries
		c.SolverTimeS += r.SolverTime.Seconds()
		if r.MaxPathInstr > c.MaxPathInstr {
			c.MaxPathInstr = r.MaxPathInstr
		}
		c.Harnesses = append(c.Harnesses, HarnessSummary{Name: r.Name, Paths: r.Paths, PathsDone: r.PathsDone, PathsVacuous: r.PathsAssume,
			Decisions: r.Decisions, Instructions: r.Instructions, MaxPathInstr: r.MaxPathInstr, Assertions: r.Labels,
			Violations: len(r.Violations), WallS: r.Wall.Seconds(), Uncovered: r.Uncovered, UncoveredWhy: r.UncoveredWhy, Concurrent: r.Concurrent})
	}
	c.Queries["feasibility"] = c.Queries["total"] - c.Queries["assertion"]
	if c.Transitions == 0 {
		c.Transitions = c.States
	}
	c.TracesValidated = validated
	c.InstrBudget = cfg.budget
	c.Exhaustive = true
	for _, r := range results {
		if len(r.Inconclusive) > 0 {
			c.Exhaustive = false
		}
	}
	// only casket functions + a count of library functions
	nlib := 0
	for _, f := range sortedKeys(funcs) {
		if strings.Contains(f, "tmpim/casket") && !strings.Contains(f, "zzverif") {
			c.FunctionsEncoded = append(c.FunctionsEncoded, strings.ReplaceAll(f, "github.com/tmpim/casket/", ""))
		} else {
			nlib++
		}
	}
	c.FunctionsEncoded = append(c.FunctionsEncoded, fmt.Sprintf("(+ %d standard-library / dependency functions executed from their SSA)", nlib))
	c.Intrinsics = sortedKeys(intr)
	c.Solvers = []string{cfg.solver + " (incremental, push/pop)", "portfolio on unknown: z3 4.8.12, z3 5.1, cvc5 1.0 one-shot"}
	c.LoadS = ld.loadTime.Seconds()
	if out, err := exec.Command("git", "-C", repoDir, "rev-parse", "HEAD").Output(); err == nil {
		c.RepoHead = strings.TrimSpace(string(out))
	}
	if out, err := exec.Command("git", "-C", repoDir, "status", "--porcelain").Output(); err == nil {
		c.RepoDirty = strings.TrimSpace(string(out)) != ""
	}
	if len(c.Samples) == 0 {
		c.Samples = []string{"(no completed path)"}
	}
	ev.Assumptions = append(ev.Assumptions,
		"verdict = solver answer over all values of the symbolic inputs within the harness bounds (see DESIGN.md per property); shapes (lengths, counts) are enumerated by forking",
		"int/uint are 64-bit; floats concrete only; map iteration in insertion order unless the harness asks for all orders",
		"log.* is a no-op; listed intrinsics model runtime/assembly functions by their documented contract",
		fmt.Sprintf("instruction budget per path %d (max observed %d)", cfg.budget, c.MaxPathInstr))
	sort.Strings(c.Samples)
}

func (ev *Evidence) write() {
	if ev.Coverage.States == 0 {
		// keep schema-valid even when nothing ran
		ev.Level = "other"
		if ev.Coverage.Explanation == "" {
			ev.Coverage.Explanation = "nothing explored"
		}
		if ev.Coverage.Samples == nil {
			ev.Coverage.Samples = []string{"(none)"}
		}
	}
	dir := filepath.Join(verifRoot(), "evidence")
	if evidenceDirOverride != "" {
		dir = evidenceDirOverride
	}
	os.MkdirAll(dir, 0o755)
	b, _ := json.MarshalIndent(ev, "", " ")
	os.WriteFile(filepath.Join(dir, ev.PropertyID+".json"), b, 0o644)
}
