package main

import (
	"fmt"
	"sort"
	"strings"

	"golang.org/x/tools/go/ssa"
)

// A Decision is one entry of a path's decision vector.
type Decision struct {
	Kind    byte     // 'b' branch, 'c' concretise, 'k' choose, 's' schedule, 'a' assume
	N       int      // number of alternatives
	Vals    []uint64 // for 'c': the feasible values; Chosen indexes into it
	Chosen  int
	Pending []pendingAlt
}

type pendingAlt struct {
	idx   int
	model Model
}

type NondetEvent struct {
	Name  string
	W     uint8
	Var   string // symbolic var name ("" if concrete)
	Value uint64 // concrete value (for Choose) or model value filled at the end
}

type Violation struct {
	Harness string
	Label   string
	In      string
	Where   string
	Detail  string
	Events  []NondetEvent
	Trace   string
	Kind    string // "assert", "panic", "hang", "deadlock"
	Path    []int
	Sched   bool   // found on a path that explores goroutine interleavings (its schedule cannot be forced natively)
	Tags    string // input-class tags the harness attached before the violation (verifrt.Tag), sorted, comma-joined
}

func (p *PathState) tagString() string {
	t := append([]string{}, p.tags...)
	sort.Strings(t)
	return strings.Join(t, ",")
}

type PathState struct {
	tags      []string
	prefix    []Decision // decisions to replay
	decisions []Decision
	dpos      int
	pc        []*Term
	model     Model // satisfies pc (nil if unknown)
	events    []NondetEvent
	observes  []Observation
	nondetSeq int
	violations []Violation
	unknowns  int
	assumed   int
	labelsChecked map[string]int
	concurrent bool // the harness explores goroutine interleavings: native runs are schedule-dependent
}

type Observation struct {
	Label string
	Vals  []Value
}

func (it *Interp) live() bool { return it.path.dpos >= len(it.path.prefix) }

func (it *Interp) evalModel(t *Term) (uint64, bool) {
	if it.path.model == nil {
		return 0, false
	}
	return it.tt.Eval(t, it.path.model, map[*Term]uint64{}), true
}

func (it *Interp) addPC(t *Term) {
	if t.Op == OpConst {
		return
	}
	it.path.pc = append(it.path.pc, t)
	it.sol.Assert(t)
}

// nextDecision returns the replayed decision if in prefix.
func (it *Interp) replayDecision(kind byte) (*Decision, bool) {
	p := it.path
	if p.dpos < len(p.prefix) {
		d := p.prefix[p.dpos]
		if d.Kind != kind {
			panic(engineErr("replay divergence: expected decision kind %c got %c at %d", d.Kind, kind, p.dpos))
		}
		p.decisions = append(p.decisions, Decision{Kind: d.Kind, N: d.N, Vals: d.Vals, Chosen: d.Chosen})
		p.dpos++
		if p.dpos == len(p.prefix) {
			// the model attached to the alternative that led here
			for _, pa := range d.Pending {
				if pa.idx == -1 {
					p.model = pa.model
				}
			}
		}
		return &p.decisions[len(p.decisions)-1], true
	}
	return nil, false
}

// branch decides a symbolic condition, forking the path.
func (it *Interp) branch(cond *Term) bool {
	if cond.Op == OpConst {
		return cond.Val != 0
	}
	if it.spec > 0 {
		panic(specAbort{"branch"})
	}
	p := it.path
	if d, ok := it.replayDecision('b'); ok {
		taken := d.Chosen == 1
		if d.N == 2 {
			if taken {
				it.addPC(cond)
			} else {
				it.addPC(it.tt.Not(cond))
			}
		}
		return taken
	}
	notc := it.tt.Not(cond)
	var feasT, feasF bool
	var mT, mF Model
	if mv, ok := it.evalModel(cond); ok {
		if mv != 0 {
			feasT, mT = true, p.model
			r, m := it.check(notc, true)
			feasF, mF = r != Unsat, m
			if r == Unknown {
				p.unknowns++
			}
		} else {
			feasF, mF = true, p.model
			r, m := it.check(cond, true)
			feasT, mT = r != Unsat, m
			if r == Unknown {
				p.unknowns++
			}
		}
	} else {
		r, m := it.check(cond, true)
		feasT, mT = r != Unsat, m
		if r == Unknown {
			p.unknowns++
		}
		r, m = it.check(notc, true)
		feasF, mF = r != Unsat, m
		if r == Unknown {
			p.unknowns++
		}
	}
	switch {
	case feasT && feasF:
		// explore false side first (loops usually exit on false → shorter paths first), true pending
		d := Decision{Kind: 'b', N: 2, Chosen: 0, Pending: []pendingAlt{{idx: 1, model: mT}}}
		p.decisions = append(p.decisions, d)
		p.dpos++
		p.model = mF
		it.addPC(notc)
		return false
	case feasT:
		p.decisions = append(p.decisions, Decision{Kind: 'b', N: 1, Chosen: 1})
		p.dpos++
		p.model = mT
		return true
	case feasF:
		p.decisions = append(p.decisions, Decision{Kind: 'b', N: 1, Chosen: 0})
		p.dpos++
		p.model = mF
		return false
	}
	// both infeasible: the path condition itself is unsatisfiable (can happen after unknowns)
	panic(pathEnd{reason: "assume", detail: "infeasible path"})
}

// concretize forks over the feasible values of a 64-bit term (cap values).
func (it *Interp) concretize(t *Term, cap_ int) uint64 {
	if t.Op == OpConst {
		return t.Val
	}
	if it.spec > 0 {
		panic(specAbort{"concretize"})
	}
	p := it.path
	if d, ok := it.replayDecision('c'); ok {
		v := d.Vals[d.Chosen]
		if len(d.Vals) > 1 {
			it.addPC(it.tt.Eq(t, it.tt.Const(t.W, v)))
		}
		return v
	}
	var vals []uint64
	var models []Model
	excl := it.tt.tru
	if mv, ok := it.evalModel(t); ok {
		vals = append(vals, mv)
		models = append(models, p.model)
		excl = it.tt.Not(it.tt.Eq(t, it.tt.Const(t.W, mv)))
	}
	for {
		r, m := it.check(excl, true)
		if r == Unknown {
			p.unknowns++
			panic(engineErr("solver unknown while concretising %s", t))
		}
		if r == Unsat {
			break
		}
		v := it.tt.Eval(t, m, map[*Term]uint64{})
		vals = append(vals, v)
		models = append(models, m)
		if len(vals) > cap_ {
			panic(engineErr("concretisation fan-out > %d for %s", cap_, t))
		}
		excl = it.tt.And(excl, it.tt.Not(it.tt.Eq(t, it.tt.Const(t.W, v))))
	}
	if len(vals) == 0 {
		panic(pathEnd{reason: "assume", detail: "infeasible path"})
	}
	// deterministic order
	idx := make([]int, len(vals))
	for i := range idx {
		idx[i] = i
	}
	sort.Slice(idx, func(a, b int) bool { return vals[idx[a]] < vals[idx[b]] })
	sv := make([]uint64, len(vals))
	sm := make([]Model, len(vals))
	for i, j := range idx {
		sv[i], sm[i] = vals[j], models[j]
	}
	d := Decision{Kind: 'c', N: len(sv), Vals: sv, Chosen: 0}
	for i := 1; i < len(sv); i++ {
		d.Pending = append(d.Pending, pendingAlt{idx: i, model: sm[i]})
	}
	p.decisions = append(p.decisions, d)
	p.dpos++
	p.model = sm[0]
	if len(sv) > 1 {
		it.addPC(it.tt.Eq(t, it.tt.Const(t.W, sv[0])))
	}
	return sv[0]
}

// choose is an unconstrained n-way fork (no solver involvement).
func (it *Interp) choose(kind byte, n int) int {
	if n <= 0 {
		panic(engineErr("choose with n=%d", n))
	}
	if it.spec > 0 {
		panic(specAbort{"choose"})
	}
	p := it.path
	if d, ok := it.replayDecision(kind); ok {
		return d.Chosen
	}
	d := Decision{Kind: kind, N: n, Chosen: 0}
	for i := 1; i < n; i++ {
		d.Pending = append(d.Pending, pendingAlt{idx: i, model: p.model})
	}
	p.decisions = append(p.decisions, d)
	p.dpos++
	return 0
}

func (it *Interp) assume(c *Term) {
	if c.Op == OpConst {
		if c.Val == 0 {
			panic(pathEnd{reason: "assume", detail: "assume(false)"})
		}
		return
	}
	p := it.path
	if _, ok := it.replayDecision('a'); ok {
		it.addPC(c)
		return
	}
	if mv, ok := it.evalModel(c); ok && mv != 0 {
		// model still fine
	} else {
		r, m := it.check(c, true)
		if r == Unsat {
			panic(pathEnd{reason: "assume", detail: "assume unsatisfiable"})
		}
		if r == Unknown {
			p.unknowns++
			p.model = nil
		} else {
			p.model = m
		}
	}
	p.decisions = append(p.decisions, Decision{Kind: 'a', N: 1})
	p.dpos++
	p.assumed++
	it.addPC(c)
}

// assertProp checks the property c on the current path: sat(pc ∧ ¬c) is a violation.
func (it *Interp) assertProp(c *Term, label string) {
	p := it.path
	p.labelsChecked[label]++
	if c.Op == OpConst && c.Val != 0 {
		return
	}
	if !it.live() {
		// in the replayed prefix the assertion was already checked by the path that created the prefix
		// only if it lies before the divergence point; assertions are cheap to re-check, but to avoid
		// duplicate reports we skip them and re-assume.
		if c.Op == OpConst {
			panic(pathEnd{reason: "assume", detail: "assert(false) in prefix"})
		}
		it.assume(c)
		return
	}
	notc := it.tt.Not(c)
	r, m := it.checkAssertion(notc)
	switch r {
	case Sat:
		it.recordViolation("assert", label, "", m)
	case Unknown:
		p.unknowns++
		panic(engineErr("solver unknown on assertion %q", label))
	}
	if c.Op == OpConst {
		panic(pathEnd{reason: "done", detail: "assert(false)"})
	}
	it.assume(c)
}

func (it *Interp) checkAssertion(notc *Term) (SatResult, Model) {
	it.stats.assertQueries++
	if notc.Op == OpConst {
		if notc.Val == 0 {
			return Unsat, nil
		}
		if it.path.model != nil {
			return Sat, it.path.model
		}
	}
	if mv, ok := it.evalModel(notc); ok && mv != 0 {
		return Sat, it.path.model
	}
	r, m := it.check(notc, true)
	if r == Unknown {
		// portfolio fallback on one-shot solvers
		ts := append(append([]*Term{}, it.path.pc...), notc)
		r2 := portfolio(Script(ts), it.cfg.assertTimeout)
		if r2 == Unsat {
			return Unsat, nil
		}
		return Unknown, nil
	}
	return r, m
}

func (it *Interp) recordViolation(kind, label, detail string, m Model) {
	p := it.path
	in, where, tr := it.innermostCasket()
	v := Violation{Harness: it.harnessName, Label: label, Kind: kind, In: in, Where: where, Detail: detail, Trace: tr, Tags: it.path.tagString(), Sched: it.path.concurrent}
	v.Events = it.eventsWithModel(m)
	for _, d := range p.decisions {
		v.Path = append(v.Path, d.Chosen)
	}
	p.violations = append(p.violations, v)
}

func (it *Interp) eventsWithModel(m Model) []NondetEvent {
	evs := make([]NondetEvent, len(it.path.events))
	copy(evs, it.path.events)
	for i := range evs {
		if evs[i].Var != "" {
			evs[i].Value = m[evs[i].Var] & mask(evs[i].W)
		}
	}
	return evs
}

// nondet creates a fresh symbolic variable.
func (it *Interp) nondet(name string, w uint8) *Term {
	p := it.path
	vn := fmt.Sprintf("%s#%d", name, p.nondetSeq)
	p.nondetSeq++
	t := it.tt.Var(vn, w)
	p.events = append(p.events, NondetEvent{Name: name, W: w, Var: vn})
	return t
}

func (it *Interp) nondetChoose(name string, n int) int {
	k := it.choose('k', n)
	it.path.events = append(it.path.events, NondetEvent{Name: name, W: 64, Value: uint64(k)})
	it.path.nondetSeq++
	return k
}

// ---- speculative if-conversion ----

func pureInstr(ins ssa.Instruction) bool {
	switch ins := ins.(type) {
	case *ssa.BinOp, *ssa.UnOp, *ssa.Convert, *ssa.ChangeType, *ssa.Extract, *ssa.Field, *ssa.Index,
		*ssa.IndexAddr, *ssa.FieldAddr, *ssa.Slice, *ssa.Lookup, *ssa.MakeInterface, *ssa.ChangeInterface, *ssa.DebugRef, *ssa.TypeAssert:
		return true
	case *ssa.Call:
		if b, ok := ins.Call.Value.(*ssa.Builtin); ok {
			switch b.Name() {
			case "len", "cap", "min", "max":
				return true
			}
		}
		if _, ok := ins.Call.Value.(*ssa.Function); ok {
			return true // purity is enforced dynamically: an impure callee aborts the speculation
		}
	}
	return false
}

// sideBlock checks that blk is a pure single-predecessor block jumping to a join; returns the join.
func sideBlock(blk, pred *ssa.BasicBlock) *ssa.BasicBlock {
	if len(blk.Preds) != 1 || blk.Preds[0] != pred {
		return nil
	}
	n := len(blk.Instrs)
	if n == 0 || n > 24 {
		return nil
	}
	j, ok := blk.Instrs[n-1].(*ssa.Jump)
	if !ok {
		return nil
	}
	_ = j
	for _, ins := range blk.Instrs[:n-1] {
		if !pureInstr(ins) {
			return nil
		}
	}
	return blk.Succs[0]
}

func (it *Interp) tryIfConvert(fr *frame, cond *Term) (ok bool) {
	if it.cfg.noIfConv {
		return false
	}
	B := fr.block
	T, F := B.Succs[0], B.Succs[1]
	var J *ssa.BasicBlock
	var sides [2]*ssa.BasicBlock // blocks to execute speculatively (nil = edge directly to J)
	jt, jf := sideBlock(T, B), sideBlock(F, B)
	switch {
	case jt != nil && jf != nil && jt == jf:
		J = jt
		sides = [2]*ssa.BasicBlock{T, F}
	case jt != nil && jt == F:
		J = F
		sides = [2]*ssa.BasicBlock{T, nil}
	case jf != nil && jf == T:
		J = T
		sides = [2]*ssa.BasicBlock{nil, F}
	default:
		return false
	}
	if J == B {
		return false
	}
	fnp := fr.info.firstNonPhi[J]
	// speculative execution
	it.spec++
	defer func() {
		it.spec--
		if r := recover(); r != nil {
			if _, isAbort := r.(specAbort); isAbort {
				ok = false
				return
			}
			panic(r)
		}
	}()
	for _, sb := range sides {
		if sb == nil {
			continue
		}
		for _, ins := range sb.Instrs[:len(sb.Instrs)-1] {
			it.steps++
			it.visitInstr(fr, ins)
		}
	}
	// compute phi values
	predOf := func(side *ssa.BasicBlock) int {
		want := side
		if want == nil {
			want = B
		}
		for i, p := range J.Preds {
			if p == want {
				return i
			}
		}
		return -1
	}
	// When a side is nil (direct edge B->J) and also the other side... both edges distinct preds.
	pt, pf := predOf(sides[0]), predOf(sides[1])
	if pt < 0 || pf < 0 || pt == pf {
		panic(specAbort{"preds"})
	}
	vals := make([]Value, fnp)
	for i := 0; i < fnp; i++ {
		phi := J.Instrs[i].(*ssa.Phi)
		a, b := fr.get(phi.Edges[pt]), fr.get(phi.Edges[pf])
		v, ok := it.iteValue(cond, a, b)
		if !ok {
			panic(specAbort{"phi merge"})
		}
		vals[i] = v
	}
	for i := 0; i < fnp; i++ {
		fr.set(J.Instrs[i].(*ssa.Phi), vals[i])
	}
	it.statIfConv++
	// continue at J after phis: emulate by setting a marker block state
	fr.prevBlock = B
	fr.block = J
	it.skipPhis = J
	return true
}

func (it *Interp) iteValue(c *Term, a, b Value) (Value, bool) {
	switch a := a.(type) {
	case *Term:
		bt, ok := b.(*Term)
		if !ok || a.W != bt.W {
			return nil, false
		}
		return it.tt.Ite(c, a, bt), true
	case Str:
		bs, ok := b.(Str)
		if !ok || len(a.b) != len(bs.b) {
			return nil, false
		}
		out := make([]*Term, len(a.b))
		for i := range out {
			out[i] = it.tt.Ite(c, a.b[i], bs.b[i])
		}
		return Str{out}, true
	case *Value:
		if bp, ok := b.(*Value); ok && a == bp {
			return a, true
		}
	case Tuple:
		bt, ok := b.(Tuple)
		if !ok || len(a) != len(bt) {
			return nil, false
		}
		out := make(Tuple, len(a))
		for i := range a {
			v, ok := it.iteValue(c, a[i], bt[i])
			if !ok {
				return nil, false
			}
			out[i] = v
		}
		return out, true
	case Iface:
		bi, ok := b.(Iface)
		if ok && a.t == nil && bi.t == nil {
			return a, true
		}
	case nil:
		if b == nil {
			return nil, true
		}
	}
	return nil, false
}

// describe path for evidence samples
func describeEvents(evs []NondetEvent) string {
	var parts []string
	for _, e := range evs {
		parts = append(parts, fmt.Sprintf("%s=%d", e.Name, e.Value))
	}
	return strings.Join(parts, " ")
}

// check wraps the solver call: a query that had to be killed counts as unknown; the solver is restarted
// and the path condition re-asserted.
func (it *Interp) check(extra *Term, wantModel bool) (res SatResult, m Model) {
	defer func() {
		if r := recover(); r != nil {
			if _, ok := r.(solverKilled); !ok {
				panic(r)
			}
			it.sol.NUnknown++
			it.sol.Restart()
			it.sol.Push()
			for _, c := range it.path.pc {
				it.sol.Assert(c)
			}
			res, m = Unknown, nil
		}
	}()
	return it.sol.Check(extra, wantModel)
}
