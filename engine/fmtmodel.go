package main

// Structural model of fmt: formatting is never the subject of a property; texts are spliced so
// that they can be compared for the few substrings the code under test looks at.

import (
	"fmt"
	"go/types"
	"strconv"
	"strings"
)

func (it *Interp) fmtOperand(fr *frame, v Value, verb byte) []*Term {
	lit := func(s string) []*Term { return it.mkStr(s).b }
	switch x := v.(type) {
	case Iface:
		if x.t == nil {
			if verb == 's' || verb == 'v' || verb == 'q' {
				return lit("<nil>")
			}
			return lit("%!" + string(verb) + "(<nil>)")
		}
		// error / Stringer
		if verb != 'T' && verb != 'p' {
			if _, isBasic := x.t.Underlying().(*types.Basic); !isBasic || true {
				if f := it.findMethod(x.t, nil, "Error"); f != nil && types_isError(x.t) {
					if n, isNil := isNilValue(x.v); !(isNil && n) {
						if s, ok := it.call(fr, nil, f, []Value{x.v}).(Str); ok {
							return it.fmtStr(s, verb)
						}
					}
				} else if f := it.findMethod(x.t, nil, "String"); f != nil && f.Signature.Params().Len() == 0 && f.Signature.Results().Len() == 1 && isStringType(f.Signature.Results().At(0).Type()) {
					if n, isNil := isNilValue(x.v); !(isNil && n) {
						if s, ok := it.call(fr, nil, f, []Value{x.v}).(Str); ok {
							return it.fmtStr(s, verb)
						}
					}
				}
			}
		}
		if verb == 'T' {
			return lit(x.t.String())
		}
		return it.fmtScalar(x.t, x.v, verb)
	}
	return lit("?")
}

func (it *Interp) fmtStr(s Str, verb byte) []*Term {
	if verb == 'q' {
		out := it.mkStr("\"").b
		out = append(out, s.b...)
		return append(out, it.tt.bytes['"'])
	}
	return s.b
}

func (it *Interp) fmtScalar(t types.Type, v Value, verb byte) []*Term {
	lit := func(s string) []*Term { return it.mkStr(s).b }
	switch x := v.(type) {
	case Str:
		return it.fmtStr(x, verb)
	case *Term:
		if x.Op != OpConst {
			if x.W == 8 && verb == 'c' {
				return []*Term{x}
			}
			return lit("\x00sym\x00") // opaque placeholder; nothing may branch on it meaningfully
		}
		if x.W == 0 {
			return lit(strconv.FormatBool(x.Val != 0))
		}
		var iv int64
		var uv uint64
		signed := isSigned(t)
		if signed {
			iv = sext64(x.Val, x.W)
		} else {
			uv = x.Val
		}
		switch verb {
		case 'x':
			if signed {
				return lit(strconv.FormatInt(iv, 16))
			}
			return lit(strconv.FormatUint(uv, 16))
		case 'c':
			if signed {
				return lit(string(rune(iv)))
			}
			return lit(string(rune(uv)))
		case 'q':
			if signed {
				return lit(strconv.QuoteRune(rune(iv)))
			}
			return lit(strconv.QuoteRune(rune(uv)))
		default:
			if signed {
				return lit(strconv.FormatInt(iv, 10))
			}
			return lit(strconv.FormatUint(uv, 10))
		}
	case float64:
		return lit(strconv.FormatFloat(x, 'g', -1, 64))
	case float32:
		return lit(strconv.FormatFloat(float64(x), 'g', -1, 32))
	case []Value:
		// []byte as string for %s, else generic
		if verb == 's' || verb == 'q' {
			ok := true
			b := make([]*Term, len(x))
			for i, e := range x {
				t, isT := e.(*Term)
				if !isT || t.W != 8 {
					ok = false
					break
				}
				b[i] = t
			}
			if ok {
				return it.fmtStr(Str{b}, verb)
			}
		}
		out := lit("[")
		for i, e := range x {
			if i > 0 {
				out = append(out, it.tt.bytes[' '])
			}
			var et types.Type = types.Typ[types.Int]
			if sl, ok := t.Underlying().(*types.Slice); ok {
				et = sl.Elem()
			}
			if ei, isI := e.(Iface); isI {
				out = append(out, it.fmtOperand(nil, ei, 'v')...)
			} else {
				out = append(out, it.fmtScalar(et, e, 'v')...)
			}
		}
		return append(out, it.tt.bytes[']'])
	case *Value:
		if x == nil {
			return lit("<nil>")
		}
		return lit("0xc000000000")
	case Struct:
		return lit("{…}")
	case *Map:
		return lit("map[…]")
	}
	return lit("?")
}

// sprintf renders format with args ([]Value of Iface).
func (it *Interp) sprintf(fr *frame, format Str, args []Value) Str {
	f, ok := format.concrete()
	if !ok {
		// a format with symbolic bytes (request text that reached a Printf-style call): decide per byte
		// whether it is a '%' (forking on it); a symbolic verb is made concrete by forking over its values
		buf := make([]byte, len(format.b))
		lit := make([]*Term, len(format.b)) // symbolic bytes known not to be '%' keep their term
		for i := 0; i < len(format.b); i++ {
			t := format.b[i]
			if t.Op == OpConst {
				buf[i] = byte(t.Val)
				continue
			}
			if it.prevIsOpenPercent(buf, lit, i) {
				buf[i] = byte(it.concretize(t, 256))
				continue
			}
			if it.branch(it.tt.Eq(t, it.tt.Const(8, '%'))) {
				buf[i] = '%'
			} else {
				buf[i] = 'x' // placeholder: an ordinary character, emitted from lit
				lit[i] = t
			}
		}
		res := it.sprintfConcrete(fr, string(buf), lit, args)
		return res
	}
	return it.sprintfConcrete(fr, f, nil, args)
}

// prevIsOpenPercent: the byte before position i is a '%' that starts a verb (not the second half of "%%").
func (it *Interp) prevIsOpenPercent(buf []byte, lit []*Term, i int) bool {
	n := 0
	for j := i - 1; j >= 0 && buf[j] == '%' && lit[j] == nil; j-- {
		n++
	}
	return n%2 == 1
}

// sprintfConcrete formats with a concrete format string; lit[i] != nil marks a position whose
// character is an ordinary (non-'%') symbolic byte to be copied through.
func (it *Interp) sprintfConcrete(fr *frame, f string, lit []*Term, args []Value) Str {
	var out []*Term
	ai := 0
	for i := 0; i < len(f); i++ {
		c := f[i]
		if lit != nil && lit[i] != nil {
			out = append(out, lit[i])
			continue
		}
		if c != '%' {
			out = append(out, it.tt.bytes[c])
			continue
		}
		i++
		if i >= len(f) {
			out = append(out, it.mkStr("%!(NOVERB)").b...)
			break
		}
		// flags / width / precision are ignored
		for i < len(f) && strings.IndexByte("+-# 0123456789.*[]", f[i]) >= 0 {
			i++
		}
		if i >= len(f) {
			break
		}
		verb := f[i]
		if verb == '%' {
			out = append(out, it.tt.bytes['%'])
			continue
		}
		if ai >= len(args) {
			out = append(out, it.mkStr("%!"+string(verb)+"(MISSING)").b...)
			continue
		}
		v := verb
		if v == 'w' {
			v = 'v'
		}
		out = append(out, it.fmtOperand(fr, args[ai], v)...)
		ai++
	}
	return Str{out}
}

func (it *Interp) sprint(fr *frame, args []Value, ln bool) Str {
	var out []*Term
	for i, a := range args {
		if i > 0 && ln {
			out = append(out, it.tt.bytes[' '])
		}
		out = append(out, it.fmtOperand(fr, a, 'v')...)
	}
	if ln {
		out = append(out, it.tt.bytes['\n'])
	}
	return Str{out}
}

func varargs(v Value) []Value {
	sl, _ := v.([]Value)
	return sl
}

func strToBytes(s Str) []Value {
	out := make([]Value, len(s.b))
	for i, b := range s.b {
		out[i] = b
	}
	return out
}

func init() {
	reg("fmt.Sprintf", func(fr *frame, args []Value) Value {
		return fr.it.sprintf(fr, args[0].(Str), varargs(args[1]))
	})
	reg("fmt.Sprint", func(fr *frame, args []Value) Value { return fr.it.sprint(fr, varargs(args[0]), false) })
	reg("fmt.Sprintln", func(fr *frame, args []Value) Value { return fr.it.sprint(fr, varargs(args[0]), true) })
	reg("fmt.Errorf", func(fr *frame, args []Value) Value {
		it := fr.it
		msg := it.sprintf(fr, args[0].(Str), varargs(args[1]))
		// %w: build a *fmt.wrapError so that errors.Is/Unwrap keep working
		if f, ok := args[0].(Str).concrete(); ok && strings.Contains(f, "%w") {
			va := varargs(args[1])
			idx := 0
			var wrapped Value
			for i := 0; i+1 < len(f); i++ {
				if f[i] == '%' {
					if f[i+1] == '%' {
						i++
						continue
					}
					if f[i+1] == 'w' && idx < len(va) {
						wrapped = va[idx]
					}
					idx++
				}
			}
			if wi, ok := wrapped.(Iface); ok && wi.t != nil {
				if pkg := it.prog.ImportedPackage("fmt"); pkg != nil {
					if wt := pkg.Type("wrapError"); wt != nil {
						var cell Value = Struct{msg, wi}
						return Iface{t: types.NewPointer(wt.Type()), v: &cell}
					}
				}
			}
		}
		return it.call(fr, nil, it.funcByName("errors.New"), []Value{msg})
	})
	fprint := func(mk func(fr *frame, args []Value) Str) intrinsicFn {
		return func(fr *frame, args []Value) Value {
			s := mk(fr, args[1:])
			res := fr.it.invokeMethod(fr, args[0], "Write", strToBytes(s))
			return res
		}
	}
	reg("fmt.Fprintf", fprint(func(fr *frame, a []Value) Str { return fr.it.sprintf(fr, a[0].(Str), varargs(a[1])) }))
	reg("fmt.Fprint", fprint(func(fr *frame, a []Value) Str { return fr.it.sprint(fr, varargs(a[0]), false) }))
	reg("fmt.Fprintln", fprint(func(fr *frame, a []Value) Str { return fr.it.sprint(fr, varargs(a[0]), true) }))
	for _, n := range []string{"Print", "Printf", "Println"} {
		reg("fmt."+n, func(fr *frame, args []Value) Value { return Tuple{fr.it.mkInt(0), Iface{}} })
	}

	// context.WithValue: the real one consults reflectlite for key comparability
	reg("context.WithValue", func(fr *frame, args []Value) Value {
		it := fr.it
		if p, ok := args[0].(Iface); !ok || p.t == nil {
			panic(it.explicitPanic(Iface{t: types.Typ[types.String], v: it.mkStr("cannot create context from nil parent")}))
		}
		if k, ok := args[1].(Iface); !ok || k.t == nil {
			panic(it.explicitPanic(Iface{t: types.Typ[types.String], v: it.mkStr("nil key")}))
		}
		pkg := it.prog.ImportedPackage("context")
		vt := pkg.Type("valueCtx").Type()
		var cell Value = Struct{args[0], args[1], args[2]}
		return Iface{t: types.NewPointer(vt), v: &cell}
	})
	reg("errors.Is", func(fr *frame, args []Value) Value { return fr.it.errorsIs(fr, args[0], args[1], 0) })
}

// errorsIs models errors.Is without reflectlite: identity/equality along the Unwrap chain, honouring Is methods.
func (it *Interp) errorsIs(fr *frame, err, target Value, depth int) Value {
	e, _ := err.(Iface)
	t, _ := target.(Iface)
	if e.t == nil || t.t == nil {
		return it.tt.Bool(e.t == nil && t.t == nil)
	}
	if depth > 20 {
		return it.tt.fls
	}
	if types.Comparable(t.t) && types.Identical(e.t, t.t) {
		eq := it.equals(e, t)
		if eq.Op != OpConst {
			if it.branch(eq) {
				return it.tt.tru
			}
		} else if eq.Val != 0 {
			return it.tt.tru
		}
	}
	if f := it.findMethod(e.t, nil, "Is"); f != nil && f.Signature.Params().Len() == 1 {
		r := it.call(fr, nil, f, []Value{e.v, t})
		if rt, ok := r.(*Term); ok && it.branch(rt) {
			return it.tt.tru
		}
	}
	if f := it.findMethod(e.t, nil, "Unwrap"); f != nil && f.Signature.Params().Len() == 0 && f.Signature.Results().Len() == 1 {
		r := it.call(fr, nil, f, []Value{e.v})
		switch r := r.(type) {
		case Iface:
			return it.errorsIs(fr, r, target, depth+1)
		case []Value:
			for _, x := range r {
				if v := it.errorsIs(fr, x, target, depth+1).(*Term); v.Op == OpConst && v.Val != 0 {
					return v
				}
			}
		}
	}
	return it.tt.fls
}

var _ = fmt.Sprint
