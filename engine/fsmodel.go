package main

// In-memory file table for the few direct os.Open/Stat/ReadFile calls in casket. Files are put
// there by the harness (verifrt.FSPut); the native twin writes the same files under a temp dir.

import (
	"go/types"
	"path"
	"sort"
	"strings"
)

type fsFile struct {
	data  Str
	isDir bool
	ino   uint64
	link  string // symbolic link: absolute target path
}

// fsResolve follows symbolic links in every component of name (the last one too when followLast).
func (it *Interp) fsResolve(name string, followLast bool) string {
	name = path.Clean(name)
	for hops := 0; hops < 16; hops++ {
		changed := false
		parts := strings.Split(strings.TrimPrefix(name, "/"), "/")
		cur := ""
		for i, c := range parts {
			cur += "/" + c
			last := i == len(parts)-1
			if f, ok := it.fsFiles[cur]; ok && f.link != "" && (!last || followLast) {
				rest := strings.Join(parts[i+1:], "/")
				name = path.Clean(f.link + "/" + rest)
				changed = true
				break
			}
		}
		if !changed {
			return name
		}
	}
	return name
}

type openFile struct {
	name string
	f    *fsFile
	pos  int
}

func (it *Interp) fsLookup(name string) *fsFile { return it.fsLookupL(name, true) }

func (it *Interp) fsLookupL(name string, followLast bool) *fsFile {
	name = it.fsResolve(name, followLast)
	if f, ok := it.fsFiles[name]; ok {
		return f
	}
	// implicit directories
	for p := range it.fsFiles {
		if strings.HasPrefix(p, name+"/") || name == "/" {
			d := &fsFile{isDir: true, ino: uint64(1000 + len(it.fsFiles))}
			it.fsFiles[name] = d
			return d
		}
	}
	return nil
}

func (it *Interp) pathArg(v Value) string {
	s, ok := v.(Str)
	if !ok {
		panic(engineErr("file path is %T", v))
	}
	c, ok := s.concrete()
	if !ok {
		// a symbolic path reaches the operating system: fork over the feasible spellings byte by byte
		b := make([]byte, len(s.b))
		for i, t := range s.b {
			if t.Op == OpConst {
				b[i] = byte(t.Val)
			} else {
				b[i] = byte(it.concretize(it.tt.ZExt(t, 64), 64))
			}
		}
		c = string(b)
	}
	if !strings.HasPrefix(c, "/") {
		c = "/srv/" + c
	}
	return path.Clean(c)
}

func (it *Interp) notExistErr(fr *frame, op, name string) Value {
	// &fs.PathError{Op, Path, Err: syscall.ENOENT}; os.IsNotExist / errors.Is(err, fs.ErrNotExist) work through Errno.Is
	pkg := it.prog.ImportedPackage("io/fs")
	sys := it.prog.ImportedPackage("syscall")
	if pkg == nil || sys == nil {
		return it.call(fr, nil, it.funcByName("errors.New"), []Value{it.mkStr(op + " " + name + ": no such file or directory")})
	}
	pe := pkg.Type("PathError").Type()
	errno := sys.Type("Errno").Type()
	var cell Value = Struct{it.mkStr(op), it.mkStr(name), Iface{t: errno, v: it.tt.Const(64, 2)}}
	return Iface{t: types.NewPointer(pe), v: &cell}
}

func (it *Interp) fileInfo(name string, f *fsFile) Value {
	pkg := it.prog.ImportedPackage("os")
	ft := pkg.Type("fileStat").Type()
	st := it.zero(ft).(Struct)
	u := ft.Underlying().(*types.Struct)
	for i := 0; i < u.NumFields(); i++ {
		switch u.Field(i).Name() {
		case "name":
			st[i] = it.mkStr(path.Base(name))
		case "size":
			st[i] = it.tt.Const(64, uint64(len(f.data.b)))
		case "mode":
			m := uint64(0o644)
			if f.isDir {
				m = 1<<31 | 0o755
			}
			if f.link != "" {
				m = 1<<27 | 0o777 // ModeSymlink (only Lstat reports the link itself)
			}
			st[i] = it.tt.Const(32, m)
		case "sys":
			// identity for os.SameFile: device 1, a distinct inode per file
			if sys, ok := st[i].(Struct); ok {
				if su, ok := u.Field(i).Type().Underlying().(*types.Struct); ok {
					for j := 0; j < su.NumFields(); j++ {
						switch su.Field(j).Name() {
						case "Dev":
							sys[j] = it.tt.Const(64, 1)
						case "Ino":
							sys[j] = it.tt.Const(64, f.ino)
						}
					}
				}
			}
		}
	}
	var cell Value = st
	return Iface{t: types.NewPointer(ft), v: &cell}
}

func (it *Interp) newOSFile(name string, f *fsFile) Value {
	pkg := it.prog.ImportedPackage("os")
	ft := pkg.Type("File").Type()
	var cell Value = it.zero(ft)
	p := &cell
	if it.openFiles == nil {
		it.openFiles = map[*Value]*openFile{}
	}
	it.openFiles[p] = &openFile{name: name, f: f}
	return p
}

func (it *Interp) openFileOf(v Value) *openFile {
	p, _ := v.(*Value)
	if p == nil {
		return nil
	}
	return it.openFiles[p]
}

func init() {
	reg(rtPkg+"FSPut", func(fr *frame, args []Value) Value {
		it := fr.it
		if it.fsFiles == nil {
			it.fsFiles = map[string]*fsFile{}
		}
		data := Str{bytesOf(args[1])}
		it.fsFiles[it.pathArg(args[0])] = &fsFile{data: data, ino: uint64(10 + len(it.fsFiles))}
		return nil
	})
	reg(rtPkg+"FSRoot", func(fr *frame, args []Value) Value { return fr.it.mkStr("/srv") })
	open := func(fr *frame, args []Value) Value {
		it := fr.it
		name := it.pathArg(args[0])
		f := it.fsLookup(name)
		if f == nil {
			return Tuple{(*Value)(nil), it.notExistErr(fr, "open", name)}
		}
		return Tuple{it.newOSFile(name, f), Iface{}}
	}
	reg("os.Open", open)
	reg("os.OpenFile", func(fr *frame, args []Value) Value { return open(fr, args[:1]) })
	stat := func(fr *frame, args []Value) Value {
		it := fr.it
		name := it.pathArg(args[0])
		f := it.fsLookup(name)
		if f == nil {
			return Tuple{Iface{}, it.notExistErr(fr, "stat", name)}
		}
		return Tuple{it.fileInfo(name, f), Iface{}}
	}
	reg("os.Stat", stat)
	reg("os.Lstat", func(fr *frame, args []Value) Value {
		it := fr.it
		name := it.pathArg(args[0])
		f := it.fsLookupL(name, false)
		if f == nil {
			return Tuple{Iface{}, it.notExistErr(fr, "lstat", name)}
		}
		return Tuple{it.fileInfo(name, f), Iface{}}
	})
	reg("os.Readlink", func(fr *frame, args []Value) Value {
		it := fr.it
		name := it.pathArg(args[0])
		f := it.fsLookupL(name, false)
		if f == nil || f.link == "" {
			return Tuple{it.mkStr(""), it.notExistErr(fr, "readlink", name)}
		}
		return Tuple{it.mkStr(f.link), Iface{}}
	})
	reg(rtPkg+"FSSymlink", func(fr *frame, args []Value) Value {
		it := fr.it
		if it.fsFiles == nil {
			it.fsFiles = map[string]*fsFile{}
		}
		it.fsFiles[it.pathArg(args[0])] = &fsFile{link: it.pathArg(args[1]), ino: uint64(10 + len(it.fsFiles))}
		return nil
	})
	readFile := func(fr *frame, args []Value) Value {
		it := fr.it
		name := it.pathArg(args[0])
		f := it.fsLookup(name)
		if f == nil || f.isDir {
			return Tuple{[]Value(nil), it.notExistErr(fr, "open", name)}
		}
		return Tuple{strToBytes(f.data), Iface{}}
	}
	reg("os.ReadFile", readFile)
	reg("io/ioutil.ReadFile", readFile)
	reg("(*os.File).Read", func(fr *frame, args []Value) Value {
		it := fr.it
		of := it.openFileOf(args[0])
		if of == nil {
			panic(engineErr("Read on unknown *os.File"))
		}
		buf := args[1].([]Value)
		if of.pos >= len(of.f.data.b) {
			eof := it.loadPtr(it.globals[it.prog.ImportedPackage("io").Var("EOF")])
			return Tuple{it.mkInt(0), eof}
		}
		n := copy(buf, strToBytes(Str{of.f.data.b[of.pos:]}))
		for i := 0; i < n; i++ {
			it.store(&buf[i], of.f.data.b[of.pos+i])
		}
		of.pos += n
		return Tuple{it.mkInt(n), Iface{}}
	})
	reg("(*os.File).Close", func(fr *frame, args []Value) Value { return Iface{} })
	reg("(*os.File).Seek", func(fr *frame, args []Value) Value {
		it := fr.it
		of := it.openFileOf(args[0])
		if of == nil {
			panic(engineErr("Seek on unknown *os.File"))
		}
		off, whence := argInt(args[1]), argInt(args[2])
		switch whence {
		case 0:
			of.pos = off
		case 1:
			of.pos += off
		case 2:
			of.pos = len(of.f.data.b) + off
		}
		if of.pos < 0 {
			of.pos = 0
		}
		return Tuple{it.tt.Const(64, uint64(of.pos)), Iface{}}
	})
	readdir := func(fr *frame, args []Value) Value {
		it := fr.it
		of := it.openFileOf(args[0])
		if of == nil {
			panic(engineErr("Readdir on unknown *os.File"))
		}
		var names []string
		for p := range it.fsFiles {
			if path.Dir(p) == of.name && p != of.name {
				names = append(names, p)
			}
		}
		// implicit sub-directories
		seen := map[string]bool{}
		for _, n := range names {
			seen[n] = true
		}
		for p := range it.fsFiles {
			if strings.HasPrefix(p, of.name+"/") {
				rest := strings.TrimPrefix(p, of.name+"/")
				if i := strings.Index(rest, "/"); i > 0 {
					d := of.name + "/" + rest[:i]
					if !seen[d] {
						seen[d] = true
						names = append(names, d)
					}
				}
			}
		}
		sort.Strings(names)
		out := []Value{}
		for _, n := range names {
			out = append(out, it.fileInfo(n, it.fsLookupL(n, false))) // like lstat: a link is reported as a link
		}
		return Tuple{out, Iface{}}
	}
	reg("(*os.File).Readdir", readdir)
	reg("(*os.File).Name", func(fr *frame, args []Value) Value {
		if of := fr.it.openFileOf(args[0]); of != nil {
			return fr.it.mkStr(of.name)
		}
		return Str{}
	})
	reg("(*os.File).Stat", func(fr *frame, args []Value) Value {
		it := fr.it
		of := it.openFileOf(args[0])
		if of == nil {
			panic(engineErr("Stat on unknown *os.File"))
		}
		return Tuple{it.fileInfo(of.name, of.f), Iface{}}
	})
	reg("path/filepath.Glob", func(fr *frame, args []Value) Value {
		it := fr.it
		pat, ok := args[0].(Str).concrete()
		if !ok {
			panic(engineErr("symbolic glob pattern"))
		}
		if !strings.HasPrefix(pat, "/") {
			pat = "/srv/" + pat
		}
		var names []string
		for p := range it.fsFiles {
			if m, _ := path.Match(pat, p); m {
				names = append(names, p)
			}
		}
		sort.Strings(names)
		var out []Value
		for _, n := range names {
			out = append(out, it.mkStr(n))
		}
		return Tuple{out, Iface{}}
	})
	reg("path/filepath.Abs", func(fr *frame, args []Value) Value {
		it := fr.it
		s, ok := args[0].(Str).concrete()
		if !ok {
			panic(engineErr("symbolic path in filepath.Abs"))
		}
		if !strings.HasPrefix(s, "/") {
			s = "/srv/" + s
		}
		return Tuple{it.mkStr(path.Clean(s)), Iface{}}
	})
}

func init() {
	// writes to descriptors that are not files of the in-memory table (stdout, stderr, log sinks) are discarded
	reg("(*os.File).Write", func(fr *frame, args []Value) Value {
		return Tuple{fr.it.mkInt(len(args[1].([]Value))), Iface{}}
	})
	reg("(*os.File).WriteString", func(fr *frame, args []Value) Value {
		return Tuple{fr.it.mkInt(len(args[1].(Str).b)), Iface{}}
	})
	reg("(*os.File).Sync", func(fr *frame, args []Value) Value { return Iface{} })
	reg("(*os.File).Fd", func(fr *frame, args []Value) Value { return fr.it.tt.Const(64, 3) })
}
