package main

// compress/gzip.Writer is modelled as a tagging identity encoder: the encoded stream is
// 0x1f 0x8b '(' payload ')'. That DEFLATE round-trips is the standard library's property and is
// outside every claim; what the checks need is *whether* and *on which stream* gzip was applied.

import (
	"go/types"
)

func (it *Interp) structFieldPtr(p Value, pkgPath, typeName, field string) *Value {
	pp, ok := p.(*Value)
	if !ok || pp == nil {
		panic(it.runtimePanic("nil", "nil pointer dereference"))
	}
	st, ok := (*pp).(Struct)
	if !ok {
		panic(engineErr("%s.%s: not a struct", pkgPath, typeName))
	}
	pkg := it.prog.ImportedPackage(pkgPath)
	u := pkg.Type(typeName).Type().Underlying().(*types.Struct)
	for i := 0; i < u.NumFields(); i++ {
		if u.Field(i).Name() == field {
			return &st[i]
		}
	}
	panic(engineErr("%s.%s has no field %s", pkgPath, typeName, field))
}

func init() {
	gzField := func(fr *frame, z Value, name string) *Value {
		return fr.it.structFieldPtr(z, "compress/gzip", "Writer", name)
	}
	emit := func(fr *frame, z Value, data []Value) Value {
		w := *gzField(fr, z, "w")
		res := fr.it.invokeMethod(fr, w, "Write", data).(Tuple)
		return res[1]
	}
	open := func(fr *frame, z Value) {
		it := fr.it
		wh := gzField(fr, z, "wroteHeader")
		if t := (*wh).(*Term); t.Op == OpConst && t.Val == 0 {
			it.store(wh, it.tt.tru)
			emit(fr, z, []Value{it.tt.bytes[0x1f], it.tt.bytes[0x8b], it.tt.bytes['(']})
		}
	}
	reg("(*compress/gzip.Writer).Write", func(fr *frame, args []Value) Value {
		it := fr.it
		open(fr, args[0])
		data := args[1].([]Value)
		if len(data) > 0 {
			if e, _ := emit(fr, args[0], data).(Iface); e.t != nil {
				return Tuple{it.mkInt(0), e}
			}
		}
		return Tuple{it.mkInt(len(data)), Iface{}}
	})
	reg("(*compress/gzip.Writer).Flush", func(fr *frame, args []Value) Value { return Iface{} })
	reg("(*compress/gzip.Writer).Close", func(fr *frame, args []Value) Value {
		it := fr.it
		cl := gzField(fr, args[0], "closed")
		if t := (*cl).(*Term); t.Op == OpConst && t.Val != 0 {
			return Iface{}
		}
		it.store(cl, it.tt.tru)
		open(fr, args[0])
		emit(fr, args[0], []Value{it.tt.bytes[')']})
		return Iface{}
	})
}
