package main

import (
	"fmt"
	"go/token"
	"go/types"
	"strings"

	"golang.org/x/tools/go/ssa"
)

type undoEnt struct {
	p   *Value
	old Value
	f   func()
}

type fnInfo struct {
	index map[ssa.Value]int
	n     int
	// per block: index of first non-phi
	firstNonPhi map[*ssa.BasicBlock]int
}

type deferred struct {
	fn   Value
	args []Value
	tail *deferred
}

type frame struct {
	it               *Interp
	caller           *frame
	fn               *ssa.Function
	info             *fnInfo
	block, prevBlock *ssa.BasicBlock
	env              []Value
	defers           *deferred
	result           Value
	panicking        bool
	panic            *targetPanic
	g                *Goroutine
	callInstr        ssa.Instruction
}

type Interp struct {
	prog    *ssa.Program
	tt      *TermTable
	sol     *Solver
	globals map[*ssa.Global]*Value
	fninfo  map[*ssa.Function]*fnInfo
	consts  map[*ssa.Const]Value
	undo    []undoEnt

	runtimeErrorString types.Type
	errorType          types.Type

	tolerant bool // package-init mode
	initDone map[*ssa.Package]bool
	initFail []string

	// path state
	path      *PathState
	steps     int64
	budget    int64
	maxSteps  int64
	spec      int // >0 while speculating (if-conversion)
	funcsSeen map[*ssa.Function]bool
	intrSeen  map[string]bool
	trace     bool
	cur       *Goroutine
	sched     *Scheduler
	stubs     map[string]Value
	envTable  map[string]string
	fsTable   map[string]*fsNode
	depth     int
	statIfConv int64
	topFrame   *frame
	skipPhis   *ssa.BasicBlock
	mapOrderAny bool
	cfg        Config
	uuidSeq    int // uuid.New calls on the current path
	stats      stats
	harnessName string
	lastModel  Model
	syncObjs   map[*Value]*syncObj
	envSym     map[string]Str
	vtime      int64
	noIntr     map[string]int
	initFailSeen map[string]bool
	pathsSinceRestart int
	timerObjs  map[*Value]*vtimer
	uniqueTab  map[string]*Value
	tolerateUnsupported bool
	fsFiles    map[string]*fsFile
	openFiles  map[*Value]*openFile
	pureCache  map[*ssa.Function]int8
	specSteps  int
}

func NewInterp(prog *ssa.Program) *Interp {
	it := &Interp{
		prog:      prog,
		tt:        NewTermTable(),
		globals:   map[*ssa.Global]*Value{},
		fninfo:    map[*ssa.Function]*fnInfo{},
		consts:    map[*ssa.Const]Value{},
		initDone:  map[*ssa.Package]bool{},
		funcsSeen: map[*ssa.Function]bool{},
		intrSeen:  map[string]bool{},
		budget:    20_000_000,
	}
	if rt := prog.ImportedPackage("runtime"); rt != nil {
		it.runtimeErrorString = rt.Type("errorString").Object().Type()
	}
	it.errorType = types.Universe.Lookup("error").Type()
	for _, pkg := range prog.AllPackages() {
		for _, m := range pkg.Members {
			if g, ok := m.(*ssa.Global); ok {
				cell := it.zero(deref(g.Type()))
				it.globals[g] = &cell
			}
		}
	}
	return it
}

// ---- memory ----

func (it *Interp) store(p *Value, v Value) {
	if it.spec > 0 {
		panic(specAbort{"store"})
	}
	it.undo = append(it.undo, undoEnt{p: p, old: *p})
	*p = v
}

// storeInPlace writes v to *p. Aggregates are copied field by field into the existing slots so
// that pointers to fields/elements taken earlier (FieldAddr/IndexAddr) stay valid.
func (it *Interp) storeInPlace(p *Value, v Value) {
	switch rhs := v.(type) {
	case Struct:
		if lhs, ok := (*p).(Struct); ok && len(lhs) == len(rhs) {
			for i := range lhs {
				it.storeInPlace(&lhs[i], rhs[i])
			}
			return
		}
	case Array:
		if lhs, ok := (*p).(Array); ok && len(lhs) == len(rhs) {
			for i := range lhs {
				it.storeInPlace(&lhs[i], rhs[i])
			}
			return
		}
	}
	it.store(p, copyVal(v))
}

func (it *Interp) logUndo(f func()) {
	it.undo = append(it.undo, undoEnt{f: f})
}

func (it *Interp) rollback(to int) {
	for i := len(it.undo) - 1; i >= to; i-- {
		e := it.undo[i]
		if e.f != nil {
			e.f()
		} else {
			*e.p = e.old
		}
		it.undo[i] = undoEnt{}
	}
	it.undo = it.undo[:to]
}

func (it *Interp) loadPtr(p Value) Value {
	switch p := p.(type) {
	case *Value:
		if p == nil {
			panic(it.runtimePanic("nil", "invalid memory address or nil pointer dereference"))
		}
		return copyVal(*p)
	case SymPtr:
		return it.symLoad(p.sl, p.idx)
	case UPtr:
		return it.loadPtr(p.p)
	case SlicePtr:
		if len(p.sl) == 0 {
			panic(engineErr("load through pointer to empty backing array"))
		}
		return copyVal(p.sl[0])
	case StrPtr:
		if len(p.s.b) == 0 {
			panic(engineErr("load through pointer to empty string"))
		}
		return p.s.b[0]
	case Poison:
		return p
	}
	panic(engineErr("load through %T", p))
}

func (it *Interp) storePtr(p Value, v Value) {
	switch p := p.(type) {
	case *Value:
		if p == nil {
			panic(it.runtimePanic("nil", "invalid memory address or nil pointer dereference"))
		}
		it.storeInPlace(p, v)
		return
	case SymPtr:
		vt, ok := v.(*Term)
		if !ok {
			panic(engineErr("symbolic-index store of non-scalar"))
		}
		for i := range p.sl {
			old, ok := p.sl[i].(*Term)
			if !ok {
				panic(engineErr("symbolic-index store into non-scalar slot"))
			}
			c := it.tt.Eq(p.idx, it.tt.Const(64, uint64(i)))
			it.store(&p.sl[i], it.tt.Ite(c, vt, old))
		}
		return
	case UPtr:
		it.storePtr(p.p, v)
		return
	case SlicePtr:
		if len(p.sl) == 0 {
			panic(engineErr("store through pointer to empty backing array"))
		}
		it.storeInPlace(&p.sl[0], v)
		return
	case Poison:
		if it.tolerant {
			return
		}
	}
	panic(engineErr("store through %T", p))
}

// symLoad reads sl[idx] for symbolic idx (already bounds-checked) as an ite chain.
func (it *Interp) symLoad(sl []Value, idx *Term) Value {
	if len(sl) == 0 {
		panic(engineErr("symLoad on empty"))
	}
	var r *Term
	for i := len(sl) - 1; i >= 0; i-- {
		e, ok := sl[i].(*Term)
		if !ok {
			// non-scalar: concretise
			k := it.concretize(idx, 64)
			return copyVal(sl[k])
		}
		if r == nil {
			r = e
		} else {
			r = it.tt.Ite(it.tt.Eq(idx, it.tt.Const(64, uint64(i))), e, r)
		}
	}
	return r
}

// ---- runtime panics ----

func (it *Interp) innermostCasket() (string, string, string) {
	var in, where string
	var tr []string
	for g := it.cur; ; {
		var fr *frame
		if g != nil {
			fr = g.top
		} else {
			fr = it.topFrame
		}
		for f := fr; f != nil; f = f.caller {
			name := f.fn.String()
			if len(tr) < 12 {
				tr = append(tr, name)
			}
			if in == "" && f.fn.Pkg != nil && strings.HasPrefix(f.fn.Pkg.Pkg.Path(), "github.com/tmpim/casket") &&
				!strings.Contains(f.fn.Pkg.Pkg.Path(), "zzverif") && !isHarnessFunc(f.fn) {
				in = strings.TrimPrefix(name, "github.com/tmpim/casket/")
				in = strings.ReplaceAll(in, "github.com/tmpim/casket/", "")
				if f.callInstr != nil {
					where = it.prog.Fset.Position(f.callInstr.Pos()).String()
				}
			}
		}
		break
	}
	return in, where, strings.Join(tr, " <- ")
}

func isHarnessFunc(fn *ssa.Function) bool {
	for f := fn; f != nil; f = f.Parent() {
		if strings.HasPrefix(f.Name(), "Verif") || strings.HasPrefix(f.Name(), "verif") || strings.HasPrefix(f.Name(), "zz") {
			return true
		}
		if f.Signature.Recv() != nil {
			if n, ok := f.Signature.Recv().Type().(*types.Named); ok && strings.HasPrefix(n.Obj().Name(), "zz") {
				return true
			}
			if p, ok := f.Signature.Recv().Type().(*types.Pointer); ok {
				if n, ok := p.Elem().(*types.Named); ok && strings.HasPrefix(n.Obj().Name(), "zz") {
					return true
				}
			}
		}
	}
	return false
}

func (it *Interp) runtimePanic(kind, msg string) *targetPanic {
	if it.spec > 0 {
		panic(specAbort{"panic:" + kind})
	}
	in, where, tr := it.innermostCasket()
	return &targetPanic{v: Iface{t: it.runtimeErrorString, v: it.mkStr(msg)}, kind: kind, in: in, where: where, trace: tr}
}

func (it *Interp) explicitPanic(v Value) *targetPanic {
	in, where, tr := it.innermostCasket()
	return &targetPanic{v: v, kind: "explicit", in: in, where: where, trace: tr}
}

// ---- frames ----

func (it *Interp) info(fn *ssa.Function) *fnInfo {
	if fi, ok := it.fninfo[fn]; ok {
		return fi
	}
	fi := &fnInfo{index: map[ssa.Value]int{}, firstNonPhi: map[*ssa.BasicBlock]int{}}
	add := func(v ssa.Value) {
		fi.index[v] = fi.n
		fi.n++
	}
	for _, p := range fn.Params {
		add(p)
	}
	for _, fv := range fn.FreeVars {
		add(fv)
	}
	for _, b := range fn.Blocks {
		fnp := len(b.Instrs)
		for i, ins := range b.Instrs {
			if v, ok := ins.(ssa.Value); ok {
				add(v)
			}
			if _, isPhi := ins.(*ssa.Phi); !isPhi && i < fnp {
				fnp = i
			}
		}
		fi.firstNonPhi[b] = fnp
	}
	it.fninfo[fn] = fi
	return fi
}

func (fr *frame) get(key ssa.Value) Value {
	switch key := key.(type) {
	case nil:
		return nil
	case *ssa.Function:
		return key
	case *ssa.Builtin:
		return key
	case *ssa.Const:
		return fr.it.constValue(key)
	case *ssa.Global:
		if r, ok := fr.it.globals[key]; ok {
			return r
		}
		panic(engineErr("no global %v", key))
	}
	if i, ok := fr.info.index[key]; ok {
		return fr.env[i]
	}
	panic(engineErr("get: no value for %T %v in %v", key, key.Name(), fr.fn))
}

func (fr *frame) set(key ssa.Value, v Value) {
	fr.env[fr.info.index[key]] = v
}

func (fr *frame) runDefer(d *deferred) {
	var ok bool
	defer func() {
		if !ok {
			r := recover()
			if tp, isTP := r.(*targetPanic); isTP {
				fr.panicking = true
				fr.panic = tp
				return
			}
			panic(r)
		}
	}()
	fr.it.call(fr, nil, d.fn, d.args)
	ok = true
}

func (fr *frame) runDefers() {
	for d := fr.defers; d != nil; d = d.tail {
		fr.defers = d.tail
		fr.runDefer(d)
	}
	fr.defers = nil
	if fr.panicking {
		panic(fr.panic)
	}
}

func (it *Interp) lookupMethod(typ types.Type, meth *types.Func) *ssa.Function {
	return it.prog.LookupMethod(typ, meth.Pkg(), meth.Name())
}

func (it *Interp) prepareCall(fr *frame, call *ssa.CallCommon) (fn Value, args []Value) {
	v := fr.get(call.Value)
	if call.Method == nil {
		fn = v
	} else {
		recv, ok := v.(Iface)
		if !ok {
			if p, isP := v.(Poison); isP {
				panic(engineErr("invoke on poison: %s", p.why))
			}
			panic(engineErr("invoke on %T", v))
		}
		if recv.t == nil {
			panic(it.runtimePanic("nil", "invalid memory address or nil pointer dereference (method on nil interface)"))
		}
		f := it.lookupMethod(recv.t, call.Method)
		if f == nil {
			panic(engineErr("method set for dynamic type %v does not contain %s", recv.t, call.Method))
		}
		fn = f
		args = append(args, recv.v)
	}
	for _, arg := range call.Args {
		args = append(args, fr.get(arg))
	}
	return
}

func (it *Interp) call(caller *frame, site ssa.Instruction, fn Value, args []Value) Value {
	switch fn := fn.(type) {
	case *ssa.Function:
		if fn == nil {
			panic(it.runtimePanic("nil", "invalid memory address or nil pointer dereference (call of nil func)"))
		}
		return it.callSSA(caller, site, fn, args, nil)
	case *Closure:
		if fn == nil {
			panic(it.runtimePanic("nil", "call of nil func"))
		}
		return it.callSSA(caller, site, fn.Fn, args, fn.Env)
	case *ssa.Builtin:
		return it.callBuiltin(caller, fn, args, site)
	case *NativeFunc:
		return fn.f(it, caller, args)
	case Poison:
		panic(engineErr("call of poison func: %s", fn.why))
	}
	panic(engineErr("cannot call %T", fn))
}

// NativeFunc is an engine-implemented function value (used by intrinsics returning funcs).
type NativeFunc struct {
	name string
	f    func(it *Interp, caller *frame, args []Value) Value
}

// hasSymbolicArg is a cheap filter: merging only pays off when something symbolic can reach the callee.
func hasSymbolicArg(args, env []Value) bool {
	for _, a := range args {
		switch a := a.(type) {
		case *Term:
			if a.Op != OpConst {
				return true
			}
		case Str:
			for _, b := range a.b {
				if b.Op != OpConst {
					return true
				}
			}
		case *Value, []Value, Struct, Iface, SymPtr:
			return true // may reach symbolic memory
		}
	}
	return len(env) > 0
}

const maxDepth = 2500

var skipInitPkgs = map[string]bool{"runtime": true, "internal/cpu": true, "internal/bytealg": true, "runtime/internal/sys": true,
	"internal/runtime/atomic": true, "internal/abi": true, "internal/goarch": true, "internal/godebugs": true, "syscall": false}

func pkgPathOf(fn *ssa.Function) string {
	if fn.Pkg != nil {
		return fn.Pkg.Pkg.Path()
	}
	return ""
}

func (it *Interp) callSSA(caller *frame, site ssa.Instruction, fn *ssa.Function, args []Value, env []Value) (result Value) {
	if it.spec > 0 {
		return it.callPure(caller, site, fn, args, env)
	}
	if !it.tolerant && fn.Blocks != nil && len(fn.Blocks) > 1 && hasSymbolicArg(args, env) && it.staticPure(fn) {
		if v, ok := it.tryPureCall(caller, site, fn, args, env); ok {
			it.statIfConv++
			return v
		}
	}
	if it.tolerant {
		// package initialisation: a failing call yields poison instead of aborting the initialiser
		if fn.Name() == "init" && fn.Pkg != nil && fn == fn.Pkg.Func("init") {
			pp := pkgPathOf(fn)
			if skipInitPkgs[pp] || strings.HasPrefix(pp, "crypto/") || strings.Contains(pp, "golang.org/x/crypto") {
				return nil
			}
		}
		savedDepth := it.depth
		savedTop := it.topFrame
		defer func() {
			if r := recover(); r != nil {
				it.depth = savedDepth
				it.topFrame = savedTop
				why := fmt.Sprint(r)
				if tp, ok := r.(*targetPanic); ok {
					why = "panic during init: " + it.panicString(tp)
				}
				if e, ok := r.(engineError); ok {
					why = e.msg
				}
				if !strings.Contains(why, "oison") {
					key := fn.String() + ": " + why
					if it.initFailSeen == nil {
						it.initFailSeen = map[string]bool{}
					}
					if !it.initFailSeen[key] {
						it.initFailSeen[key] = true
						it.initFail = append(it.initFail, key)
					}
				}
				result = Poison{why: fn.String() + ": " + why}
			}
		}()
	}
	if fn.Parent() == nil || fn.Synthetic != "" || true {
		name := fn.String()
		if origin := fn.Origin(); origin != nil {
			name = origin.String()
		}
		if st, ok := it.stubs[name]; ok {
			return it.call(caller, site, st, args)
		}
		if ext, ok := intrinsics[name]; ok && it.noIntr[name] == 0 {
			it.intrSeen[name] = true
			fr := &frame{it: it, caller: caller, fn: fn, callInstr: site}
			fr.g = it.cur
			return ext(fr, args)
		}
		if fn.Blocks == nil {
			_, _, tr := it.innermostCasket()
			panic(engineErr("no code for function: %s (stack: %s)", name, tr))
		}
	}
	if it.depth > maxDepth {
		panic(pathEnd{reason: "budget", detail: "call depth exceeded in " + fn.String()})
	}
	it.depth++
	defer func() { it.depth-- }()
	if !it.tolerant {
		it.funcsSeen[fn] = true
	}
	fi := it.info(fn)
	fr := &frame{it: it, caller: caller, fn: fn, info: fi, callInstr: site}
	fr.g = it.cur
	fr.env = make([]Value, fi.n)
	fr.block = fn.Blocks[0]
	for _, l := range fn.Locals {
		cell := it.zero(deref(l.Type()))
		fr.set(l, &cell)
	}
	if len(args) != len(fn.Params) {
		panic(engineErr("arg count mismatch calling %s: %d vs %d", fn, len(args), len(fn.Params)))
	}
	for i, p := range fn.Params {
		fr.set(p, args[i])
	}
	for i, fv := range fn.FreeVars {
		fr.set(fv, env[i])
	}
	it.pushFrame(fr)
	defer it.popFrame(fr)
	for fr.block != nil {
		it.runFrame(fr)
	}
	return fr.result
}

func (it *Interp) pushFrame(fr *frame) {
	if fr.g != nil {
		fr.g.top = fr
	} else {
		it.topFrame = fr
	}
}

func (it *Interp) popFrame(fr *frame) {
	if fr.g != nil {
		fr.g.top = fr.caller
	} else {
		it.topFrame = fr.caller
	}
}

func (it *Interp) runFrame(fr *frame) {
	defer func() {
		if fr.block == nil {
			return // normal return
		}
		r := recover()
		tp, ok := r.(*targetPanic)
		if !ok {
			panic(r) // engine signal: propagate without running target defers
		}
		it.pushFrame(fr)
		fr.panicking = true
		fr.panic = tp
		fr.runDefers()
		fr.block = fr.fn.Recover
		if fr.block == nil {
			// recovered in function without named results: return zero values
			fr.result = it.zeroResults(fr.fn)
		}
	}()
	for {
		blk := fr.block
		fnp := fr.info.firstNonPhi[blk]
		if fnp > 0 {
			if it.skipPhis == blk {
				it.skipPhis = nil
			} else {
				it.executePhis(fr, blk, fnp)
			}
		}
		instrs := blk.Instrs
		for i := fnp; i < len(instrs); i++ {
			it.steps++
			if it.steps > it.budget {
				panic(pathEnd{reason: "budget", detail: "instruction budget exhausted in " + fr.fn.String()})
			}
			if it.trace {
				it.traceInstr(fr, instrs[i])
			}
			switch it.visitInstr(fr, instrs[i]) {
			case kReturn:
				return
			case kJump:
				goto next
			}
		}
	next:
	}
}

func (it *Interp) zeroResults(fn *ssa.Function) Value {
	res := fn.Signature.Results()
	switch res.Len() {
	case 0:
		return nil
	case 1:
		return it.zero(res.At(0).Type())
	}
	return it.zero(res)
}

func (it *Interp) executePhis(fr *frame, blk *ssa.BasicBlock, n int) {
	predIndex := -1
	for i, p := range blk.Preds {
		if p == fr.prevBlock {
			predIndex = i
			break
		}
	}
	if predIndex < 0 {
		panic(engineErr("phi: predecessor not found in %s", fr.fn))
	}
	var tmp [8]Value
	temps := tmp[:0]
	for _, ins := range blk.Instrs[:n] {
		temps = append(temps, fr.get(ins.(*ssa.Phi).Edges[predIndex]))
	}
	for i, ins := range blk.Instrs[:n] {
		fr.set(ins.(*ssa.Phi), temps[i])
	}
}

type continuation int

const (
	kNext continuation = iota
	kReturn
	kJump
)

func (it *Interp) traceInstr(fr *frame, instr ssa.Instruction) {
	if v, ok := instr.(ssa.Value); ok {
		fmt.Printf("  [%s] %s = %s\n", fr.fn.Name(), v.Name(), instr)
	} else {
		fmt.Printf("  [%s] %s\n", fr.fn.Name(), instr)
	}
}

func (it *Interp) visitInstr(fr *frame, instr ssa.Instruction) continuation {
	switch instr := instr.(type) {
	case *ssa.DebugRef:
	case *ssa.UnOp:
		fr.set(instr, it.unop(fr, instr, fr.get(instr.X)))
	case *ssa.BinOp:
		fr.set(instr, it.binop(instr.Op, instr.X.Type(), fr.get(instr.X), fr.get(instr.Y)))
	case *ssa.Call:
		fn, args := it.prepareCall(fr, &instr.Call)
		fr.set(instr, it.call(fr, instr, fn, args))
	case *ssa.ChangeInterface:
		fr.set(instr, fr.get(instr.X))
	case *ssa.ChangeType:
		fr.set(instr, fr.get(instr.X))
	case *ssa.Convert:
		fr.set(instr, it.conv(instr.Type(), instr.X.Type(), fr.get(instr.X)))
	case *ssa.MultiConvert:
		fr.set(instr, it.conv(instr.Type(), instr.X.Type(), fr.get(instr.X)))
	case *ssa.SliceToArrayPointer:
		fr.set(instr, it.sliceToArrayPointer(instr.Type(), fr.get(instr.X)))
	case *ssa.MakeInterface:
		fr.set(instr, Iface{t: instr.X.Type(), v: fr.get(instr.X)})
	case *ssa.Extract:
		tup := fr.get(instr.Tuple)
		if p, ok := tup.(Poison); ok {
			fr.set(instr, p)
		} else {
			fr.set(instr, tup.(Tuple)[instr.Index])
		}
	case *ssa.Slice:
		fr.set(instr, it.slice(instr, fr.get(instr.X), fr.get(instr.Low), fr.get(instr.High), fr.get(instr.Max)))
	case *ssa.Return:
		switch len(instr.Results) {
		case 0:
		case 1:
			fr.result = fr.get(instr.Results[0])
		default:
			res := make(Tuple, len(instr.Results))
			for i, r := range instr.Results {
				res[i] = fr.get(r)
			}
			fr.result = res
		}
		fr.block = nil
		return kReturn
	case *ssa.RunDefers:
		fr.runDefers()
	case *ssa.Panic:
		if it.spec > 0 {
			panic(specAbort{"panic"})
		}
		panic(it.explicitPanic(fr.get(instr.X)))
	case *ssa.Send:
		it.chanSend(fr, fr.get(instr.Chan), fr.get(instr.X))
	case *ssa.Store:
		it.storePtr(fr.get(instr.Addr), fr.get(instr.Val))
	case *ssa.If:
		cond := fr.get(instr.Cond)
		ct, ok := cond.(*Term)
		if !ok {
			panic(engineErr("If on %T (%v)", cond, cond))
		}
		var taken bool
		if ct.Op == OpConst {
			taken = ct.Val != 0
		} else {
			if it.spec > 0 {
				panic(specAbort{"nested symbolic if"})
			}
			if it.tryIfConvert(fr, ct) {
				return kJump
			}
			taken = it.branch(ct)
		}
		succ := 1
		if taken {
			succ = 0
		}
		fr.prevBlock, fr.block = fr.block, fr.block.Succs[succ]
		return kJump
	case *ssa.Jump:
		fr.prevBlock, fr.block = fr.block, fr.block.Succs[0]
		return kJump
	case *ssa.Defer:
		if it.spec > 0 {
			panic(specAbort{"defer"})
		}
		fn, args := it.prepareCall(fr, &instr.Call)
		fr.defers = &deferred{fn: fn, args: args, tail: fr.defers}
	case *ssa.Go:
		fn, args := it.prepareCall(fr, &instr.Call)
		it.goStmt(fr, fn, args)
	case *ssa.MakeChan:
		n, ok := concInt(fr.get(instr.Size))
		if !ok {
			panic(engineErr("symbolic chan size"))
		}
		fr.set(instr, it.newChan(int(n)))
	case *ssa.Alloc:
		if it.spec > 0 {
			panic(specAbort{"alloc"})
		}
		if instr.Heap {
			cell := it.zero(deref(instr.Type()))
			fr.set(instr, &cell)
		} else {
			p := fr.get(instr).(*Value)
			*p = it.zero(deref(instr.Type()))
		}
	case *ssa.MakeSlice:
		if it.spec > 0 {
			panic(specAbort{"makeslice"})
		}
		ln := it.shapeInt(fr.get(instr.Len), "make len")
		cp := it.shapeInt(fr.get(instr.Cap), "make cap")
		if ln < 0 || cp < ln {
			panic(it.runtimePanic("other", "makeslice: len out of range"))
		}
		if cp > 1<<26 {
			panic(engineErr("MakeSlice too large: %d", cp))
		}
		sl := make([]Value, cp)
		tElt := instr.Type().Underlying().(*types.Slice).Elem()
		if cp > 0 {
			z := it.zero(tElt)
			switch z.(type) {
			case Struct, Array:
				for i := range sl {
					sl[i] = it.zero(tElt)
				}
			default:
				for i := range sl {
					sl[i] = z
				}
			}
		}
		fr.set(instr, sl[:ln])
	case *ssa.MakeMap:
		fr.set(instr, it.newMap(instr.Type().Underlying().(*types.Map).Key()))
	case *ssa.Range:
		fr.set(instr, it.rangeIter(fr.get(instr.X), instr.X.Type()))
	case *ssa.Next:
		fr.set(instr, it.iterNext(fr, fr.get(instr.Iter)))
	case *ssa.FieldAddr:
		x := fr.get(instr.X)
		switch x := x.(type) {
		case *Value:
			if x == nil {
				panic(it.runtimePanic("nil", "invalid memory address or nil pointer dereference"))
			}
			st, ok := (*x).(Struct)
			if !ok {
				if p, isP := (*x).(Poison); isP {
					fr.set(instr, p)
					break
				}
				panic(engineErr("FieldAddr on pointer to %T in %s", *x, fr.fn))
			}
			fr.set(instr, &st[instr.Field])
		case UPtr:
			p, ok := x.p.(*Value)
			if !ok || p == nil {
				panic(engineErr("FieldAddr on unsafe ptr"))
			}
			fr.set(instr, &(*p).(Struct)[instr.Field])
		case Poison:
			fr.set(instr, x)
		default:
			panic(engineErr("FieldAddr on %T", x))
		}
	case *ssa.Field:
		x := fr.get(instr.X)
		if p, ok := x.(Poison); ok {
			fr.set(instr, p)
		} else {
			fr.set(instr, x.(Struct)[instr.Field])
		}
	case *ssa.IndexAddr:
		fr.set(instr, it.indexAddr(fr, instr, fr.get(instr.X), fr.get(instr.Index)))
	case *ssa.Index:
		fr.set(instr, it.index(fr.get(instr.X), fr.get(instr.Index)))
	case *ssa.Lookup:
		fr.set(instr, it.lookup(instr, fr.get(instr.X), fr.get(instr.Index)))
	case *ssa.MapUpdate:
		if it.spec > 0 {
			panic(specAbort{"mapupdate"})
		}
		m := fr.get(instr.Map)
		mm, ok := m.(*Map)
		if !ok {
			panic(engineErr("MapUpdate on %T", m))
		}
		it.mapSet(mm, fr.get(instr.Key), copyVal(fr.get(instr.Value)))
	case *ssa.TypeAssert:
		fr.set(instr, it.typeAssert(instr, fr.get(instr.X)))
	case *ssa.MakeClosure:
		var bindings []Value
		for _, b := range instr.Bindings {
			bindings = append(bindings, fr.get(b))
		}
		fr.set(instr, &Closure{instr.Fn.(*ssa.Function), bindings})
	case *ssa.Select:
		fr.set(instr, it.selectStmt(fr, instr))
	default:
		panic(engineErr("unexpected instruction: %T", instr))
	}
	return kNext
}

// shapeInt turns an integer value used as a shape into a concrete int (forking if symbolic).
func (it *Interp) shapeInt(v Value, what string) int {
	if v == nil {
		return 0
	}
	t, ok := v.(*Term)
	if !ok {
		panic(engineErr("%s: not an int: %T", what, v))
	}
	if t.Op == OpConst {
		return int(sext64(t.Val, t.W))
	}
	if it.spec > 0 {
		panic(specAbort{"symbolic shape"})
	}
	w := t
	if t.W < 64 {
		w = it.tt.SExt(t, 64)
	}
	return int(int64(it.concretize(w, 64)))
}

func (it *Interp) indexAddr(fr *frame, instr *ssa.IndexAddr, x, idx Value) Value {
	var sl []Value
	switch x := x.(type) {
	case []Value:
		sl = x
	case *Value:
		if x == nil {
			panic(it.runtimePanic("nil", "invalid memory address or nil pointer dereference"))
		}
		a, ok := (*x).(Array)
		if !ok {
			panic(engineErr("IndexAddr on pointer to %T", *x))
		}
		sl = a
	case Poison:
		return x
	default:
		panic(engineErr("IndexAddr on %T", x))
	}
	it_, ok := idx.(*Term)
	if !ok {
		panic(engineErr("IndexAddr index %T", idx))
	}
	i64 := it.toInt64Term(it_, instr.Index.Type())
	if i64.Op == OpConst {
		i := int64(i64.Val)
		if i < 0 || i >= int64(len(sl)) {
			panic(it.runtimePanic("index", fmt.Sprintf("index out of range [%d] with length %d", i, len(sl))))
		}
		return &sl[i]
	}
	it.boundsCheck(i64, len(sl))
	// scalar elements: symbolic pointer; else concretise
	if len(sl) > 0 {
		if _, scalar := sl[0].(*Term); scalar && it.onlyLoadStore(instr) {
			return SymPtr{sl: sl, idx: i64}
		}
	}
	k := it.concretize(i64, 64)
	return &sl[k]
}

// onlyLoadStore reports whether all referrers of the address are loads/stores (so a SymPtr is safe).
func (it *Interp) onlyLoadStore(instr *ssa.IndexAddr) bool {
	refs := instr.Referrers()
	if refs == nil {
		return false
	}
	for _, r := range *refs {
		switch r := r.(type) {
		case *ssa.UnOp:
			if r.Op != token.MUL {
				return false
			}
		case *ssa.Store:
			if r.Addr != ssa.Value(instr) {
				return false
			}
		case *ssa.DebugRef:
		default:
			return false
		}
	}
	return true
}

// boundsCheck forks a panic path if idx (64-bit signed term) can be outside [0,n).
func (it *Interp) boundsCheck(idx *Term, n int) {
	inb := it.tt.ULt(idx, it.tt.Const(64, uint64(n)))
	if inb.Op == OpConst {
		if inb.Val == 0 {
			panic(it.runtimePanic("index", fmt.Sprintf("index out of range [sym] with length %d", n)))
		}
		return
	}
	if it.spec > 0 {
		panic(specAbort{"symbolic bounds"})
	}
	if !it.branch(inb) {
		panic(it.runtimePanic("index", fmt.Sprintf("index out of range [sym] with length %d", n)))
	}
}

func (it *Interp) toInt64Term(t *Term, typ types.Type) *Term {
	if t.W == 64 {
		return t
	}
	if isSigned(typ) {
		return it.tt.SExt(t, 64)
	}
	return it.tt.ZExt(t, 64)
}

func (it *Interp) index(x, idx Value) Value {
	if p, ok := x.(Poison); ok {
		return p
	}
	if s, ok := x.(Str); ok {
		i64 := it.toInt64Term(idx.(*Term), types.Typ[types.Int])
		if i64.Op == OpConst {
			i := int64(i64.Val)
			if i < 0 || i >= int64(len(s.b)) {
				panic(it.runtimePanic("index", fmt.Sprintf("index out of range [%d] with length %d", i, len(s.b))))
			}
			return s.b[i]
		}
		it.boundsCheck(i64, len(s.b))
		var r *Term
		for i := len(s.b) - 1; i >= 0; i-- {
			if r == nil {
				r = s.b[i]
			} else {
				r = it.tt.Ite(it.tt.Eq(i64, it.tt.Const(64, uint64(i))), s.b[i], r)
			}
		}
		return r
	}
	a, ok := x.(Array)
	if !ok {
		panic(engineErr("Index on %T", x))
	}
	i64 := it.toInt64Term(idx.(*Term), types.Typ[types.Int])
	if i64.Op == OpConst {
		i := int64(i64.Val)
		if i < 0 || i >= int64(len(a)) {
			panic(it.runtimePanic("index", fmt.Sprintf("index out of range [%d] with length %d", i, len(a))))
		}
		return a[i]
	}
	it.boundsCheck(i64, len(a))
	return it.symLoad(a, i64)
}

func (it *Interp) lookup(instr *ssa.Lookup, x, idx Value) Value {
	switch x := x.(type) {
	case Str:
		i64 := it.toInt64Term(idx.(*Term), instr.Index.Type())
		if i64.Op == OpConst {
			i := int64(i64.Val)
			if i < 0 || i >= int64(len(x.b)) {
				panic(it.runtimePanic("index", fmt.Sprintf("index out of range [%d] with length %d", i, len(x.b))))
			}
			return x.b[i]
		}
		it.boundsCheck(i64, len(x.b))
		var r *Term
		for i := len(x.b) - 1; i >= 0; i-- {
			if r == nil {
				r = x.b[i]
			} else {
				r = it.tt.Ite(it.tt.Eq(i64, it.tt.Const(64, uint64(i))), x.b[i], r)
			}
		}
		return r
	case *Map:
		if it.spec > 0 {
			panic(specAbort{"map lookup"})
		}
		v, ok := it.mapGet(x, idx)
		if !ok {
			v = it.zero(instr.X.Type().Underlying().(*types.Map).Elem())
		} else {
			v = copyVal(v)
		}
		if instr.CommaOk {
			return Tuple{v, it.tt.Bool(ok)}
		}
		return v
	case Poison:
		return x
	}
	panic(engineErr("Lookup on %T", x))
}

func (it *Interp) slice(instr *ssa.Slice, x, lo, hi, max Value) Value {
	var l, c int
	switch x := x.(type) {
	case Str:
		l = len(x.b)
		c = l
	case []Value:
		l = len(x)
		c = cap(x)
	case *Value:
		if x == nil {
			panic(it.runtimePanic("nil", "slice of nil array pointer"))
		}
		l = len((*x).(Array))
		c = l
	case Poison:
		return x
	default:
		panic(engineErr("slice of %T", x))
	}
	L := 0
	if lo != nil {
		L = it.shapeInt(lo, "slice low")
	}
	H := l
	if hi != nil {
		H = it.shapeInt(hi, "slice high")
	}
	M := c
	if max != nil {
		M = it.shapeInt(max, "slice max")
	}
	if _, isStr := x.(Str); isStr {
		if L < 0 || H < L || H > l {
			panic(it.runtimePanic("slice", fmt.Sprintf("slice bounds out of range [%d:%d] with length %d", L, H, l)))
		}
		return Str{x.(Str).b[L:H]}
	}
	if L < 0 || H < L || M < H || M > c {
		panic(it.runtimePanic("slice", fmt.Sprintf("slice bounds out of range [%d:%d:%d] with capacity %d", L, H, M, c)))
	}
	switch x := x.(type) {
	case []Value:
		if x == nil {
			return []Value(nil)
		}
		return x[L:H:M]
	case *Value:
		return []Value((*x).(Array))[L:H:M]
	}
	panic("unreachable")
}

func (it *Interp) sliceToArrayPointer(t types.Type, x Value) Value {
	sl := x.([]Value)
	n := int(deref(t).Underlying().(*types.Array).Len())
	if len(sl) < n {
		panic(it.runtimePanic("slice", "cannot convert slice to array pointer: length too short"))
	}
	if sl == nil {
		return (*Value)(nil)
	}
	var v Value = Array(sl[:n:n])
	return &v
}

func (it *Interp) typeAssert(instr *ssa.TypeAssert, x Value) Value {
	xi, ok := x.(Iface)
	if !ok {
		if p, isP := x.(Poison); isP {
			return p
		}
		panic(engineErr("TypeAssert on %T", x))
	}
	var v Value
	errMsg := ""
	if xi.t == nil {
		errMsg = "interface conversion: interface is nil, not " + instr.AssertedType.String()
	} else if itype, ok := instr.AssertedType.Underlying().(*types.Interface); ok {
		v = xi
		if meth, _ := types.MissingMethod(xi.t, itype, true); meth != nil {
			errMsg = fmt.Sprintf("interface conversion: %v is not %v: missing method %s", xi.t, instr.AssertedType, meth.Name())
		}
	} else if types.Identical(xi.t, instr.AssertedType) {
		v = xi.v
	} else {
		errMsg = fmt.Sprintf("interface conversion: interface is %v, not %v", xi.t, instr.AssertedType)
	}
	if errMsg != "" {
		if instr.CommaOk {
			return Tuple{it.zero(instr.AssertedType), it.tt.fls}
		}
		panic(it.runtimePanic("assert", errMsg))
	}
	if instr.CommaOk {
		return Tuple{v, it.tt.tru}
	}
	return v
}

// ---- iteration ----

type strIter struct {
	s Str
	i int
}
type mapIter struct {
	ents []*mapEntry
	i    int
}

func (it *Interp) rangeIter(x Value, t types.Type) Value {
	switch x := x.(type) {
	case Str:
		return &strIter{s: x}
	case *Map:
		if x == nil {
			return &mapIter{}
		}
		ents := x.live()
		if it.mapOrderAny && len(ents) > 1 && len(ents) <= 4 {
			ents = it.permute(ents)
		} else {
			ents = sortEntries(ents)
		}
		return &mapIter{ents: ents}
	case Poison:
		panic(engineErr("range over poison: %s", x.why))
	}
	panic(engineErr("range over %T", x))
}

func (it *Interp) iterNext(fr *frame, x Value) Value {
	switch iter := x.(type) {
	case *strIter:
		if iter.i >= len(iter.s.b) {
			return Tuple{it.tt.fls, it.mkInt(0), it.tt.Const(32, 0)}
		}
		b := iter.s.b[iter.i]
		start := iter.i
		if b.Op == OpConst && b.Val < 0x80 {
			iter.i++
			return Tuple{it.tt.tru, it.mkInt(start), it.tt.Const(32, b.Val)}
		}
		// general: call utf8.DecodeRuneInString on the real code
		r, size := it.decodeRune(fr, Str{iter.s.b[iter.i:]})
		iter.i += size
		return Tuple{it.tt.tru, it.mkInt(start), r}
	case *mapIter:
		for iter.i < len(iter.ents) {
			e := iter.ents[iter.i]
			iter.i++
			if e.deleted {
				continue
			}
			return Tuple{it.tt.tru, e.k, copyVal(e.v)}
		}
		return Tuple{it.tt.fls, nil, nil}
	}
	panic(engineErr("next on %T", x))
}

func (it *Interp) decodeRune(fr *frame, s Str) (*Term, int) {
	pkg := it.prog.ImportedPackage("unicode/utf8")
	if pkg == nil {
		panic(engineErr("utf8 package not loaded"))
	}
	res := it.call(fr, nil, pkg.Func("DecodeRuneInString"), []Value{s}).(Tuple)
	size := it.shapeInt(res[1], "rune size")
	return res[0].(*Term), size
}

func (it *Interp) posString(pos token.Pos) string {
	if pos == token.NoPos {
		return ""
	}
	return it.prog.Fset.Position(pos).String()
}
