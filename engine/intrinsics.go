package main

import (
	"fmt"
	"go/types"
	"math"
	"strings"

	"golang.org/x/tools/go/ssa"
)

type intrinsicFn func(fr *frame, args []Value) Value

var intrinsics = map[string]intrinsicFn{}

const rtPkg = "github.com/tmpim/casket/zzverif/verifrt."

func reg(name string, f intrinsicFn) { intrinsics[name] = f }

func types_isError(t types.Type) bool {
	errT := types.Universe.Lookup("error").Type().Underlying().(*types.Interface)
	return types.Implements(t, errT)
}

func (it *Interp) tryErrorString(v Iface) (s string, ok bool) {
	defer func() {
		if r := recover(); r != nil {
			ok = false
		}
	}()
	f := it.findMethod(v.t, nil, "Error")
	if f == nil {
		return "", false
	}
	r := it.call(it.curFrame(), nil, f, []Value{v.v})
	if rs, isStr := r.(Str); isStr {
		return rs.String(), true
	}
	return "", false
}

func argStr(v Value) string {
	s, ok := v.(Str)
	if !ok {
		panic(engineErr("expected string argument, got %T", v))
	}
	c, ok := s.concrete()
	if !ok {
		panic(engineErr("expected concrete string argument"))
	}
	return c
}

func argInt(v Value) int {
	n, ok := concInt(v)
	if !ok {
		panic(engineErr("expected concrete int argument, got %v", valString(v)))
	}
	return int(n)
}

func bytesOf(v Value) []*Term {
	switch v := v.(type) {
	case Str:
		return v.b
	case []Value:
		out := make([]*Term, len(v))
		for i, x := range v {
			out[i] = x.(*Term)
		}
		return out
	}
	panic(engineErr("bytesOf %T", v))
}

func (it *Interp) formatObservation(o Observation, m Model) string {
	var parts []string
	for _, v := range o.Vals {
		parts = append(parts, it.formatObsValue(v, m))
	}
	return o.Label + ":" + strings.Join(parts, ",")
}

func (it *Interp) formatObsValue(v Value, m Model) string {
	memo := map[*Term]uint64{}
	ev := func(t *Term) uint64 { return it.tt.Eval(t, m, memo) }
	switch v := v.(type) {
	case Iface:
		if v.t == nil {
			return "nil"
		}
		switch x := v.v.(type) {
		case *Term:
			if x.W == 0 {
				return fmt.Sprint(ev(x) != 0)
			}
			if isSigned(v.t) {
				return fmt.Sprint(sext64(ev(x), x.W))
			}
			return fmt.Sprint(ev(x))
		case Str:
			b := make([]byte, len(x.b))
			for i, t := range x.b {
				b[i] = byte(ev(t))
			}
			return fmt.Sprintf("%q", string(b))
		case []Value:
			b := make([]byte, len(x))
			for i, t := range x {
				tt, ok := t.(*Term)
				if !ok || tt.W != 8 {
					return "?slice"
				}
				b[i] = byte(ev(tt))
			}
			return fmt.Sprintf("%x", b)
		default:
			if types_isError(v.t) {
				return "err"
			}
			return "?" + v.t.String()
		}
	}
	return "?"
}

func init() {
	// ---- verifrt ----
	nondetInt := func(w uint8) intrinsicFn {
		return func(fr *frame, args []Value) Value {
			return fr.it.nondet(argStr(args[0]), w)
		}
	}
	reg(rtPkg+"Bool", nondetInt(0))
	reg(rtPkg+"Byte", nondetInt(8))
	reg(rtPkg+"Uint16", nondetInt(16))
	reg(rtPkg+"Uint32", nondetInt(32))
	reg(rtPkg+"Int32", nondetInt(32))
	reg(rtPkg+"Uint64", nondetInt(64))
	reg(rtPkg+"Int64", nondetInt(64))
	reg(rtPkg+"Int", nondetInt(64))
	reg(rtPkg+"Choose", func(fr *frame, args []Value) Value {
		return fr.it.mkInt(fr.it.nondetChoose(argStr(args[0]), argInt(args[1])))
	})
	reg(rtPkg+"IntRange", func(fr *frame, args []Value) Value {
		lo, hi := argInt(args[1]), argInt(args[2])
		return fr.it.mkInt(lo + fr.it.nondetChoose(argStr(args[0]), hi-lo+1))
	})
	reg(rtPkg+"Bytes", func(fr *frame, args []Value) Value {
		n := argInt(args[1])
		name := argStr(args[0])
		sl := make([]Value, n)
		for i := range sl {
			sl[i] = fr.it.nondet(fmt.Sprintf("%s[%d]", name, i), 8)
		}
		return sl
	})
	reg(rtPkg+"String", func(fr *frame, args []Value) Value {
		n := argInt(args[1])
		name := argStr(args[0])
		b := make([]*Term, n)
		for i := range b {
			b[i] = fr.it.nondet(fmt.Sprintf("%s[%d]", name, i), 8)
		}
		return Str{b}
	})
	reg(rtPkg+"Assume", func(fr *frame, args []Value) Value {
		fr.it.assume(args[0].(*Term))
		return nil
	})
	reg(rtPkg+"Assert", func(fr *frame, args []Value) Value {
		fr.it.assertProp(args[0].(*Term), argStr(args[1]))
		return nil
	})
	reg(rtPkg+"Observe", func(fr *frame, args []Value) Value {
		vals, _ := args[1].([]Value)
		fr.it.path.observes = append(fr.it.path.observes, Observation{Label: argStr(args[0]), Vals: append([]Value{}, vals...)})
		return nil
	})
	reg(rtPkg+"Confirming", func(fr *frame, args []Value) Value { return fr.it.tt.fls })
	reg(rtPkg+"Symbolic", func(fr *frame, args []Value) Value { return fr.it.tt.tru })
	reg(rtPkg+"Tier", func(fr *frame, args []Value) Value {
		if fr.it.cfg.tier == "thorough" {
			return fr.it.mkInt(1)
		}
		return fr.it.mkInt(0)
	})
	reg(rtPkg+"Terminates", func(fr *frame, args []Value) Value {
		fr.it.cfg.hangIsViolation = true
		return nil
	})
	reg(rtPkg+"TolerateUnsupported", func(fr *frame, args []Value) Value {
		fr.it.tolerateUnsupported = true
		return nil
	})
	reg(rtPkg+"Budget", func(fr *frame, args []Value) Value {
		fr.it.budget = int64(argInt(args[0]))
		return nil
	})
	reg(rtPkg+"MapOrderAny", func(fr *frame, args []Value) Value {
		fr.it.mapOrderAny = true
		return nil
	})
	reg(rtPkg+"Stub", func(fr *frame, args []Value) Value {
		it := fr.it
		if it.stubs == nil {
			it.stubs = map[string]Value{}
		}
		f := args[1].(Iface)
		it.stubs[argStr(args[0])] = f.v
		return nil
	})
	reg(rtPkg+"Env", func(fr *frame, args []Value) Value {
		it := fr.it
		if it.envTable == nil {
			it.envTable = map[string]string{}
		}
		it.envSym[argStr(args[0])] = args[1].(Str)
		return nil
	})
	reg(rtPkg+"Tag", func(fr *frame, args []Value) Value {
		p := fr.it.path
		t := argStr(args[0])
		for _, x := range p.tags {
			if x == t {
				return nil
			}
		}
		p.tags = append(p.tags, t)
		return nil
	})
	reg(rtPkg+"Fail", func(fr *frame, args []Value) Value {
		fr.it.assertProp(fr.it.tt.fls, argStr(args[0]))
		return nil
	})

	// ---- internal/bytealg ----
	reg("internal/bytealg.IndexByte", func(fr *frame, args []Value) Value {
		return fr.it.indexByte(bytesOf(args[0]), args[1].(*Term))
	})
	reg("internal/bytealg.IndexByteString", func(fr *frame, args []Value) Value {
		return fr.it.indexByte(bytesOf(args[0]), args[1].(*Term))
	})
	reg("internal/bytealg.LastIndexByte", func(fr *frame, args []Value) Value {
		return fr.it.lastIndexByte(bytesOf(args[0]), args[1].(*Term))
	})
	reg("internal/bytealg.LastIndexByteString", func(fr *frame, args []Value) Value {
		return fr.it.lastIndexByte(bytesOf(args[0]), args[1].(*Term))
	})
	reg("internal/bytealg.Index", func(fr *frame, args []Value) Value {
		return fr.it.indexBytes(bytesOf(args[0]), bytesOf(args[1]))
	})
	reg("internal/bytealg.IndexString", func(fr *frame, args []Value) Value {
		return fr.it.indexBytes(bytesOf(args[0]), bytesOf(args[1]))
	})
	reg("internal/bytealg.Count", func(fr *frame, args []Value) Value {
		return fr.it.countByte(bytesOf(args[0]), args[1].(*Term))
	})
	reg("internal/bytealg.CountString", func(fr *frame, args []Value) Value {
		return fr.it.countByte(bytesOf(args[0]), args[1].(*Term))
	})
	reg("internal/bytealg.Equal", func(fr *frame, args []Value) Value {
		return fr.it.equals(Str{bytesOf(args[0])}, Str{bytesOf(args[1])})
	})
	reg("internal/bytealg.Compare", func(fr *frame, args []Value) Value {
		it := fr.it
		a, b := Str{bytesOf(args[0])}, Str{bytesOf(args[1])}
		lt := it.strLess(a, b, false)
		eq := it.equals(a, b)
		return it.tt.Ite(lt, it.tt.Const(64, ^uint64(0)), it.tt.Ite(eq, it.tt.Const(64, 0), it.tt.Const(64, 1)))
	})
	reg("internal/bytealg.MakeNoZero", func(fr *frame, args []Value) Value {
		n := fr.it.shapeInt(args[0], "MakeNoZero")
		sl := make([]Value, n)
		for i := range sl {
			sl[i] = fr.it.tt.bytes[0]
		}
		return sl
	})

	// ---- identity / inert runtime ----
	ident := func(fr *frame, args []Value) Value { return args[0] }
	reg("internal/abi.NoEscape", ident)
	reg("internal/abi.Escape", ident)
	reg("runtime.KeepAlive", func(fr *frame, args []Value) Value { return nil })
	reg("runtime.GOMAXPROCS", func(fr *frame, args []Value) Value { return fr.it.mkInt(16) })
	reg("runtime.NumCPU", func(fr *frame, args []Value) Value { return fr.it.mkInt(16) })
	reg("runtime.Gosched", func(fr *frame, args []Value) Value { fr.it.yield(fr); return nil })
	reg("runtime.GC", func(fr *frame, args []Value) Value { return nil })
	reg("runtime.SetFinalizer", func(fr *frame, args []Value) Value { return nil })
	reg("runtime.Callers", func(fr *frame, args []Value) Value { return fr.it.mkInt(0) })
	reg("runtime.Caller", func(fr *frame, args []Value) Value {
		it := fr.it
		return Tuple{it.tt.Const(64, 0), it.mkStr("?"), it.mkInt(0), it.tt.fls}
	})
	reg("runtime.Stack", func(fr *frame, args []Value) Value { return fr.it.mkInt(0) })
	reg("runtime/debug.Stack", func(fr *frame, args []Value) Value { return []Value{} })
	reg("runtime/debug.SetGCPercent", func(fr *frame, args []Value) Value { return fr.it.tt.Const(64, 100) })
	reg("runtime.procPin", func(fr *frame, args []Value) Value { return fr.it.mkInt(0) })
	reg("runtime.procUnpin", func(fr *frame, args []Value) Value { return nil })
	reg("sync.runtime_procPin", func(fr *frame, args []Value) Value { return fr.it.mkInt(0) })
	reg("sync.runtime_procUnpin", func(fr *frame, args []Value) Value { return nil })
	reg("sync.runtime_registerPoolCleanup", func(fr *frame, args []Value) Value { return nil })
	reg("sync.throw", func(fr *frame, args []Value) Value { panic(engineErr("sync.throw: %s", valString(args[0]))) })
	reg("sync.fatal", func(fr *frame, args []Value) Value {
		panic(fr.it.runtimePanic("other", "fatal error: "+valString(args[0])))
	})
	reg("(*internal/godebug.Setting).Value", func(fr *frame, args []Value) Value { return Str{} })
	reg("(*internal/godebug.Setting).IncNonDefault", func(fr *frame, args []Value) Value { return nil })
	reg("internal/godebug.registerMetric", func(fr *frame, args []Value) Value { return nil })
	reg("internal/godebug.setUpdate", func(fr *frame, args []Value) Value { return nil })
	reg("internal/godebug.setNewIncNonDefault", func(fr *frame, args []Value) Value { return nil })
	reg("internal/race.Enable", func(fr *frame, args []Value) Value { return nil })
	reg("internal/race.Disable", func(fr *frame, args []Value) Value { return nil })
	reg("os.runtime_args", func(fr *frame, args []Value) Value { return []Value{fr.it.mkStr("casket")} })
	reg("os.Exit", func(fr *frame, args []Value) Value {
		panic(pathEnd{reason: "exit", detail: valString(args[0])})
	})
	reg("os.Getenv", func(fr *frame, args []Value) Value {
		v, _ := fr.it.getenv(args[0].(Str))
		return v
	})
	reg("os.LookupEnv", func(fr *frame, args []Value) Value {
		v, ok := fr.it.getenv(args[0].(Str))
		return Tuple{v, fr.it.tt.Bool(ok)}
	})
	reg("syscall.Getenv", func(fr *frame, args []Value) Value {
		v, ok := fr.it.getenv(args[0].(Str))
		return Tuple{v, fr.it.tt.Bool(ok)}
	})
	reg("os.Hostname", func(fr *frame, args []Value) Value {
		return Tuple{fr.it.mkStr("verifhost"), Iface{}}
	})
	reg("os.Getpid", func(fr *frame, args []Value) Value { return fr.it.mkInt(4242) })
	reg("syscall.Getpagesize", func(fr *frame, args []Value) Value { return fr.it.mkInt(4096) })
	reg("os.Getpagesize", func(fr *frame, args []Value) Value { return fr.it.mkInt(4096) })
	reg("syscall.runtime_envs", func(fr *frame, args []Value) Value { return []Value{} })
	reg("os.Environ", func(fr *frame, args []Value) Value { return []Value{} })
	reg("os.Getwd", func(fr *frame, args []Value) Value { return Tuple{fr.it.mkStr("/srv"), Iface{}} })

	reg("sync.runtime_notifyListCheck", func(fr *frame, args []Value) Value { return nil })
	reg("math/rand/v2.runtime_rand", func(fr *frame, args []Value) Value { return fr.it.tt.Const(64, 0x9e3779b97f4a7c15) })
	reg("math/rand.runtime_rand", func(fr *frame, args []Value) Value { return fr.it.tt.Const(64, 0x9e3779b97f4a7c15) })
	reg("runtime.fastrand", func(fr *frame, args []Value) Value { return fr.it.tt.Const(32, 0x9e3779b9) })
	reg("internal/syscall/unix.fcntl", func(fr *frame, args []Value) Value {
		return Tuple{fr.it.tt.Const(32, 0), fr.it.tt.Const(32, 0)}
	})
	reg("github.com/klauspost/cpuid/v2.asmCpuid", func(fr *frame, args []Value) Value {
		z := fr.it.tt.Const(32, 0)
		return Tuple{z, z, z, z}
	})
	reg("github.com/klauspost/cpuid.asmCpuid", func(fr *frame, args []Value) Value {
		z := fr.it.tt.Const(32, 0)
		return Tuple{z, z, z, z}
	})

	reg("github.com/google/uuid.New", func(fr *frame, args []Value) Value {
		// distinct on every call within a path (random UUIDs do not repeat)
		fr.it.uuidSeq++
		a := make(Array, 16)
		for i := range a {
			a[i] = fr.it.tt.bytes[(i*17+3)&0xff]
		}
		a[14] = fr.it.tt.bytes[(fr.it.uuidSeq>>8)&0xff]
		a[15] = fr.it.tt.bytes[fr.it.uuidSeq&0xff]
		return a
	})
	reg("github.com/google/uuid.NewString", func(fr *frame, args []Value) Value {
		fr.it.uuidSeq++
		return fr.it.mkStr(fmt.Sprintf("03142536-4758-4a6b-8c9d-aebfc0d1%04x", fr.it.uuidSeq&0xffff))
	})

	// ---- log: no-ops ----
	for _, n := range []string{"Print", "Printf", "Println"} {
		n := n
		reg("log."+n, func(fr *frame, args []Value) Value { return nil })
		// a *log.Logger whose destination is a harness writer (type name zz…) really receives the
		// line; every other logger is a no-op
		reg("(*log.Logger)."+n, func(fr *frame, args []Value) Value {
			it := fr.it
			p, ok := args[0].(*Value)
			if !ok || p == nil {
				return nil
			}
			st, ok := (*p).(Struct)
			if !ok {
				return nil
			}
			var out Value
			if pkg := it.prog.ImportedPackage("log"); pkg != nil {
				if lt, ok := pkg.Type("Logger").Type().Underlying().(*types.Struct); ok {
					for i := 0; i < lt.NumFields(); i++ {
						if lt.Field(i).Name() == "out" {
							out = st[i]
						}
					}
				}
			}
			oi, ok := out.(Iface)
			if !ok || oi.t == nil || !strings.Contains(oi.t.String(), ".zz") {
				return nil
			}
			var line Str
			switch n {
			case "Printf":
				line = it.sprintf(fr, args[1].(Str), varargs(args[2]))
				if len(line.b) == 0 || line.b[len(line.b)-1] != it.tt.bytes['\n'] {
					line = Str{append(append([]*Term{}, line.b...), it.tt.bytes['\n'])}
				}
			case "Println":
				line = it.sprint(fr, varargs(args[1]), true)
			default:
				line = it.sprint(fr, varargs(args[1]), false)
				line = Str{append(append([]*Term{}, line.b...), it.tt.bytes['\n'])}
			}
			it.invokeMethod(fr, oi, "Write", strToBytes(line))
			return nil
		})
	}
	reg("(*log.Logger).Output", func(fr *frame, args []Value) Value { return Iface{} })
	reg("log.Output", func(fr *frame, args []Value) Value { return Iface{} })
	reg("log.SetFlags", func(fr *frame, args []Value) Value { return nil })
	for _, n := range []string{"Fatal", "Fatalf", "Fatalln"} {
		reg("log."+n, func(fr *frame, args []Value) Value { panic(pathEnd{reason: "exit", detail: "log.Fatal"}) })
		reg("(*log.Logger)."+n, func(fr *frame, args []Value) Value { panic(pathEnd{reason: "exit", detail: "log.Fatal"}) })
	}
	for _, n := range []string{"Panic", "Panicf", "Panicln"} {
		reg("log."+n, func(fr *frame, args []Value) Value {
			panic(fr.it.explicitPanic(Iface{t: types.Typ[types.String], v: fr.it.mkStr("log.Panic")}))
		})
	}

	// ---- strings fast paths (summaries of pure functions, exact) ----
	reg("strings.ToLower", func(fr *frame, args []Value) Value { return fr.it.asciiCase(fr, args[0].(Str), true, "strings.ToLower") })
	reg("strings.ToUpper", func(fr *frame, args []Value) Value { return fr.it.asciiCase(fr, args[0].(Str), false, "strings.ToUpper") })
	reg("bytes.ToLower", func(fr *frame, args []Value) Value {
		s := fr.it.asciiCase(fr, Str{bytesOf(args[0])}, true, "bytes.ToLower")
		if sl, ok := s.([]Value); ok {
			return sl
		}
		st := s.(Str)
		out := make([]Value, len(st.b))
		for i, b := range st.b {
			out[i] = b
		}
		return out
	})
}

func (it *Interp) getenv(k Str) (Str, bool) {
	ks, ok := k.concrete()
	if !ok {
		// symbolic name: it can only name a variable of the harness-supplied environment table
		for name, v := range it.envSym {
			if it.branch(it.equals(k, it.mkStr(name))) {
				return v, true
			}
		}
		for name, v := range it.envTable {
			if it.branch(it.equals(k, it.mkStr(name))) {
				return it.mkStr(v), true
			}
		}
		return Str{}, false
	}
	if v, ok := it.envSym[ks]; ok {
		return v, true
	}
	if v, ok := it.envTable[ks]; ok {
		return it.mkStr(v), true
	}
	return Str{}, false
}

// asciiCase implements strings.ToLower/ToUpper exactly for strings whose bytes are all provably ASCII;
// otherwise falls back to interpreting the real function body.
func (it *Interp) asciiCase(fr *frame, s Str, lower bool, name string) Value {
	tt := it.tt
	allConc := true
	for _, b := range s.b {
		if b.Op != OpConst {
			allConc = false
		}
		if umax(b) >= 0x80 {
			if b.Op == OpConst {
				return it.callBody(fr, name, []Value{s})
			}
			// need proof that b < 0x80 under the path condition
			c := tt.ULt(b, tt.Const(8, 0x80))
			if c.Op != OpConst {
				if r, _ := it.check(tt.Not(c), false); r != Unsat {
					return it.callBody(fr, name, []Value{s})
				}
			}
		}
	}
	_ = allConc
	out := make([]*Term, len(s.b))
	for i, b := range s.b {
		if lower {
			isUp := tt.And(tt.ULe(tt.Const(8, 'A'), b), tt.ULe(b, tt.Const(8, 'Z')))
			out[i] = tt.Ite(isUp, tt.Add(b, tt.Const(8, 32)), b)
		} else {
			isLo := tt.And(tt.ULe(tt.Const(8, 'a'), b), tt.ULe(b, tt.Const(8, 'z')))
			out[i] = tt.Ite(isLo, tt.Sub(b, tt.Const(8, 32)), b)
		}
	}
	return Str{out}
}

// callBody interprets the real body of a function that has an intrinsic fast path.
func (it *Interp) callBody(fr *frame, name string, args []Value) Value {
	fn := it.funcByName(name)
	if fn == nil || fn.Blocks == nil {
		panic(engineErr("no body for %s", name))
	}
	it.noIntr[name]++
	defer func() { it.noIntr[name]-- }()
	return it.callSSA(fr, nil, fn, args, nil)
}

func (it *Interp) funcByName(name string) *ssa.Function {
	i := strings.LastIndex(name, ".")
	if i < 0 {
		return nil
	}
	pkg := it.prog.ImportedPackage(name[:i])
	if pkg == nil {
		return nil
	}
	return pkg.Func(name[i+1:])
}

// indexByte returns the index of the first byte equal to c, forking per position where undetermined.
func (it *Interp) indexByte(s []*Term, c *Term) Value {
	for i, b := range s {
		eq := it.tt.Eq(b, c)
		if eq.Op == OpConst {
			if eq.Val != 0 {
				return it.mkInt(i)
			}
			continue
		}
		if it.branch(eq) {
			return it.mkInt(i)
		}
	}
	return it.mkInt(-1)
}

func (it *Interp) lastIndexByte(s []*Term, c *Term) Value {
	for i := len(s) - 1; i >= 0; i-- {
		eq := it.tt.Eq(s[i], c)
		if eq.Op == OpConst {
			if eq.Val != 0 {
				return it.mkInt(i)
			}
			continue
		}
		if it.branch(eq) {
			return it.mkInt(i)
		}
	}
	return it.mkInt(-1)
}

func (it *Interp) indexBytes(s, sub []*Term) Value {
	n := len(sub)
	for i := 0; i+n <= len(s); i++ {
		eq := it.equals(Str{s[i : i+n]}, Str{sub})
		if eq.Op == OpConst {
			if eq.Val != 0 {
				return it.mkInt(i)
			}
			continue
		}
		if it.branch(eq) {
			return it.mkInt(i)
		}
	}
	return it.mkInt(-1)
}

func (it *Interp) countByte(s []*Term, c *Term) Value {
	tt := it.tt
	r := tt.Const(64, 0)
	for _, b := range s {
		r = tt.Add(r, tt.Ite(tt.Eq(b, c), tt.Const(64, 1), tt.Const(64, 0)))
	}
	return r
}

// invokeMethod calls method name on interface value recv with the interpreter.
func (it *Interp) invokeMethod(fr *frame, recv Value, name string, args ...Value) Value {
	iv, ok := recv.(Iface)
	if !ok || iv.t == nil {
		panic(it.runtimePanic("nil", "method call on nil interface"))
	}
	var pkg *types.Package
	if !token_IsExported(name) {
		if n, ok := iv.t.(*types.Named); ok {
			pkg = n.Obj().Pkg()
		}
	}
	f := it.findMethod(iv.t, pkg, name)
	if f == nil {
		panic(engineErr("no method %s on %v", name, iv.t))
	}
	return it.call(fr, nil, f, append([]Value{iv.v}, args...))
}

func token_IsExported(name string) bool { return name != "" && name[0] >= 'A' && name[0] <= 'Z' }

// binaryLayout flattens a fixed-size value of unsigned/signed integers (struct, array, scalar) into bytes.
func (it *Interp) binaryEncode(t types.Type, v Value, big bool, out *[]Value) {
	switch u := t.Underlying().(type) {
	case *types.Basic:
		w, ok := basicWidth(u.Kind())
		if !ok {
			panic(engineErr("binary: unsupported basic type %v", t))
		}
		x := v.(*Term)
		if w == 0 {
			*out = append(*out, it.tt.Ite(x, it.tt.Const(8, 1), it.tt.Const(8, 0)))
			return
		}
		n := int(w / 8)
		for i := 0; i < n; i++ {
			sh := i
			if big {
				sh = n - 1 - i
			}
			b := it.tt.Trunc(it.tt.LShr(x, it.tt.Const(w, uint64(8*sh))), 8)
			if w == 8 {
				b = x
			}
			*out = append(*out, b)
		}
	case *types.Struct:
		s := v.(Struct)
		for i := 0; i < u.NumFields(); i++ {
			it.binaryEncode(u.Field(i).Type(), s[i], big, out)
		}
	case *types.Array:
		a := v.(Array)
		for i := range a {
			it.binaryEncode(u.Elem(), a[i], big, out)
		}
	default:
		panic(engineErr("binary: unsupported type %v", t))
	}
}

func (it *Interp) binarySize(t types.Type) int {
	switch u := t.Underlying().(type) {
	case *types.Basic:
		w, ok := basicWidth(u.Kind())
		if !ok {
			panic(engineErr("binary: unsupported basic type %v", t))
		}
		if w == 0 {
			return 1
		}
		return int(w / 8)
	case *types.Struct:
		n := 0
		for i := 0; i < u.NumFields(); i++ {
			n += it.binarySize(u.Field(i).Type())
		}
		return n
	case *types.Array:
		return int(u.Len()) * it.binarySize(u.Elem())
	}
	panic(engineErr("binary: unsupported type %v", t))
}

func (it *Interp) binaryDecode(t types.Type, data []Value, pos *int, big bool) Value {
	switch u := t.Underlying().(type) {
	case *types.Basic:
		w, _ := basicWidth(u.Kind())
		if w == 0 {
			b := data[*pos].(*Term)
			*pos++
			return it.tt.Not(it.tt.Eq(b, it.tt.Const(8, 0)))
		}
		n := int(w / 8)
		r := it.tt.Const(w, 0)
		for i := 0; i < n; i++ {
			b := data[*pos+i].(*Term)
			sh := i
			if big {
				sh = n - 1 - i
			}
			if w == 8 {
				r = b
			} else {
				r = it.tt.BOr(r, it.tt.Shl(it.tt.ZExt(b, w), it.tt.Const(w, uint64(8*sh))))
			}
		}
		*pos += n
		return r
	case *types.Struct:
		s := make(Struct, u.NumFields())
		for i := range s {
			s[i] = it.binaryDecode(u.Field(i).Type(), data, pos, big)
		}
		return s
	case *types.Array:
		a := make(Array, u.Len())
		for i := range a {
			a[i] = it.binaryDecode(u.Elem(), data, pos, big)
		}
		return a
	}
	panic(engineErr("binary: unsupported type %v", t))
}

func isBigEndian(order Value) bool {
	iv, ok := order.(Iface)
	if !ok || iv.t == nil {
		panic(engineErr("binary: nil byte order"))
	}
	return strings.Contains(iv.t.String(), "bigEndian")
}

func init() {
	reg("encoding/binary.Write", func(fr *frame, args []Value) Value {
		it := fr.it
		data := args[2].(Iface)
		t, v := data.t, data.v
		if p, ok := t.Underlying().(*types.Pointer); ok {
			t = p.Elem()
			v = it.loadPtr(v)
		}
		var out []Value
		if sl, ok := t.Underlying().(*types.Slice); ok {
			for _, e := range v.([]Value) {
				it.binaryEncode(sl.Elem(), e, isBigEndian(args[1]), &out)
			}
		} else {
			it.binaryEncode(t, v, isBigEndian(args[1]), &out)
		}
		if out == nil {
			out = []Value{}
		}
		res := it.invokeMethod(fr, args[0], "Write", out).(Tuple)
		return res[1]
	})
	reg("encoding/binary.Read", func(fr *frame, args []Value) Value {
		it := fr.it
		data := args[2].(Iface)
		p, ok := data.t.Underlying().(*types.Pointer)
		if !ok {
			panic(engineErr("binary.Read into %v", data.t))
		}
		n := it.binarySize(p.Elem())
		buf := make([]Value, n)
		for i := range buf {
			buf[i] = it.tt.bytes[0]
		}
		res := it.call(fr, nil, it.funcByName("io.ReadFull"), []Value{args[0], buf}).(Tuple)
		if errv := res[1].(Iface); errv.t != nil {
			return errv
		}
		pos := 0
		it.storePtr(data.v, it.binaryDecode(p.Elem(), buf, &pos, isBigEndian(args[1])))
		return Iface{}
	})
}

// findMethod returns the method named name of type t, or nil when t has no such method.
func (it *Interp) findMethod(t types.Type, pkg *types.Package, name string) *ssa.Function {
	sel := it.prog.MethodSets.MethodSet(t).Lookup(pkg, name)
	if sel == nil {
		return nil
	}
	return it.prog.MethodValue(sel)
}

func init() {
	// unique.Make: structural interning (net/netip keeps its zone markers in unique handles)
	reg("unique.Make", func(fr *frame, args []Value) Value {
		it := fr.it
		key, ok := concKey(args[0])
		if !ok {
			panic(engineErr("unique.Make of a symbolic value"))
		}
		key = fr.fn.String() + "|" + key
		if it.uniqueTab == nil {
			it.uniqueTab = map[string]*Value{}
		}
		p, ok := it.uniqueTab[key]
		if !ok {
			v := copyVal(args[0])
			p = &v
			it.uniqueTab[key] = p
		}
		return Struct{p}
	})
}

func init() {
	reg("math.Float64bits", func(fr *frame, args []Value) Value {
		return fr.it.tt.Const(64, math.Float64bits(args[0].(float64)))
	})
	reg("math.Float64frombits", func(fr *frame, args []Value) Value {
		t := args[0].(*Term)
		if t.Op != OpConst {
			panic(engineErr("symbolic bits to float"))
		}
		return math.Float64frombits(t.Val)
	})
	reg("math.Float32bits", func(fr *frame, args []Value) Value {
		return fr.it.tt.Const(32, uint64(math.Float32bits(args[0].(float32))))
	})
	reg("math.Float32frombits", func(fr *frame, args []Value) Value {
		t := args[0].(*Term)
		if t.Op != OpConst {
			panic(engineErr("symbolic bits to float"))
		}
		return math.Float32frombits(uint32(t.Val))
	})
}
