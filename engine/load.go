package main

import (
	"bufio"
	"fmt"
	"os"
	"path/filepath"
	"sort"
	"strings"
	"time"

	"golang.org/x/tools/go/packages"
	"golang.org/x/tools/go/ssa"
	"golang.org/x/tools/go/ssa/ssautil"
)

// repoDir is /repo; VERIF_REPO may point the engine at a scratch worktree (seeded-change runs only).
var repoDir = func() string {
	if d := os.Getenv("VERIF_REPO"); d != "" {
		return d
	}
	return "/repo"
}()
const modPath = "github.com/tmpim/casket"

type HarnessFile struct {
	Src    string // path under /verif/harness
	PkgDir string // relative to repo root ("" for root package)
	Dst    string // virtual path under /repo
}

type Loaded struct {
	prog     *ssa.Program
	pkgs     map[string]*ssa.Package // by pkg dir
	files    []HarnessFile
	overlay  map[string][]byte
	loadTime time.Duration
	funcs    map[string][]*ssa.Function // pkgdir -> harness funcs
}

func verifRoot() string {
	if r := os.Getenv("VERIF_ROOT"); r != "" {
		return r
	}
	exe, err := os.Executable()
	if err == nil {
		d := filepath.Dir(filepath.Dir(exe))
		if _, err := os.Stat(filepath.Join(d, "harness")); err == nil {
			return d
		}
	}
	return "/verif"
}

func readHarnessFiles(prop string) ([]HarnessFile, error) {
	dir := filepath.Join(verifRoot(), "harness", prop)
	ents, err := os.ReadDir(dir)
	if err != nil {
		return nil, err
	}
	var out []HarnessFile
	for _, e := range ents {
		if !strings.HasSuffix(e.Name(), ".go") {
			continue
		}
		src := filepath.Join(dir, e.Name())
		f, err := os.Open(src)
		if err != nil {
			return nil, err
		}
		sc := bufio.NewScanner(f)
		pkgdir := "?"
		for sc.Scan() {
			line := strings.TrimSpace(sc.Text())
			if strings.HasPrefix(line, "// verif:package ") {
				pkgdir = strings.TrimSpace(strings.TrimPrefix(line, "// verif:package "))
				if pkgdir == "." {
					pkgdir = ""
				}
				break
			}
			if strings.HasPrefix(line, "package ") {
				break
			}
		}
		f.Close()
		if pkgdir == "?" {
			return nil, fmt.Errorf("%s: missing '// verif:package <dir>' line", src)
		}
		dst := filepath.Join(repoDir, pkgdir, "zz_verif_"+strings.ToLower(prop)+"_"+e.Name())
		out = append(out, HarnessFile{Src: src, PkgDir: pkgdir, Dst: dst})
	}
	sort.Slice(out, func(i, j int) bool { return out[i].Src < out[j].Src })
	return out, nil
}

func buildOverlay(files []HarnessFile) (map[string][]byte, error) {
	ov := map[string][]byte{}
	for _, hf := range files {
		b, err := os.ReadFile(hf.Src)
		if err != nil {
			return nil, err
		}
		ov[hf.Dst] = b
	}
	rt, err := os.ReadFile(filepath.Join(verifRoot(), "rt", "verifrt", "verifrt.go"))
	if err != nil {
		return nil, err
	}
	ov[filepath.Join(repoDir, "zzverif", "verifrt", "verifrt.go")] = rt
	return ov, nil
}

func loadProgram(files []HarnessFile) (*Loaded, error) {
	start := time.Now()
	ov, err := buildOverlay(files)
	if err != nil {
		return nil, err
	}
	dirs := map[string]bool{}
	for _, f := range files {
		dirs[f.PkgDir] = true
	}
	var patterns []string
	for d := range dirs {
		patterns = append(patterns, "./"+d)
	}
	sort.Strings(patterns)
	cfg := &packages.Config{
		Mode:       packages.LoadAllSyntax,
		Dir:        repoDir,
		BuildFlags: []string{"-tags=verif", "-mod=mod"},
		Overlay:    ov,
		Env:        append(os.Environ(), "GOFLAGS=-mod=mod", "GOPROXY=off", "GOSUMDB=off", "GOTOOLCHAIN=local"),
	}
	pkgs, err := packages.Load(cfg, patterns...)
	if err != nil {
		return nil, err
	}
	var errs []string
	packages.Visit(pkgs, nil, func(p *packages.Package) {
		for _, e := range p.Errors {
			if len(errs) < 20 {
				errs = append(errs, e.Error())
			}
		}
	})
	if len(errs) > 0 {
		return nil, fmt.Errorf("harness does not build against the current tree:\n  %s", strings.Join(errs, "\n  "))
	}
	prog, spkgs := ssautil.AllPackages(pkgs, ssa.InstantiateGenerics|ssa.SanityCheckFunctions&0)
	prog.Build()
	ld := &Loaded{prog: prog, pkgs: map[string]*ssa.Package{}, files: files, overlay: ov, funcs: map[string][]*ssa.Function{}}
	for i, p := range pkgs {
		dir := strings.TrimPrefix(strings.TrimPrefix(p.PkgPath, modPath), "/")
		ld.pkgs[dir] = spkgs[i]
	}
	for dir, sp := range ld.pkgs {
		if sp == nil {
			return nil, fmt.Errorf("no SSA package for %s", dir)
		}
		var names []string
		for name, m := range sp.Members {
			fn, ok := m.(*ssa.Function)
			if !ok || !strings.HasPrefix(name, "Verif") || fn.Signature.Params().Len() != 0 {
				continue
			}
			pos := prog.Fset.Position(fn.Pos())
			if !strings.HasPrefix(filepath.Base(pos.Filename), "zz_verif_") {
				continue
			}
			names = append(names, name)
		}
		sort.Strings(names)
		for _, n := range names {
			ld.funcs[dir] = append(ld.funcs[dir], sp.Func(n))
		}
	}
	ld.loadTime = time.Since(start)
	return ld, nil
}
