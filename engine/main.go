package main

import (
	"encoding/json"
	"flag"
	"fmt"
	"os"
	"os/exec"
	"path/filepath"
	"runtime"
	"runtime/pprof"
	"sort"
	"strconv"
	"strings"
	"time"

	"golang.org/x/tools/go/ssa"
)

type KnownFinding struct {
	Status   string `json:"status"` // known | fixed
	Property string `json:"property"`
	Harness  string `json:"harness"`
	Label    string `json:"label"`
	In       string `json:"in"`
	Tag      string `json:"tag,omitempty"` // input class (verifrt.Tag) the finding is confined to
	Commit   string `json:"commit,omitempty"`
	Witness  string `json:"witness,omitempty"`
	What     string `json:"what"`
}

type KnownFile struct {
	Findings []KnownFinding `json:"findings"`
}

// hasTag: a known finding confined to an input class matches only violations carrying that tag.
func hasTag(tags, want string) bool {
	if want == "" {
		return true
	}
	for _, t := range strings.Split(tags, ",") {
		if t == want {
			return true
		}
	}
	return false
}

func loadKnown() KnownFile {
	var kf KnownFile
	b, err := os.ReadFile(filepath.Join(verifRoot(), "known_findings.json"))
	if err == nil {
		json.Unmarshal(b, &kf)
	}
	return kf
}

func main() {
	if len(os.Args) < 2 {
		fmt.Fprintln(os.Stderr, "usage: verif check <property> [--tier quick|thorough] | verif replay <file>")
		os.Exit(2)
	}
	switch os.Args[1] {
	case "check":
		os.Exit(cmdCheck(os.Args[2:]))
	case "replay":
		os.Exit(cmdReplay(os.Args[2:]))
	default:
		fmt.Fprintln(os.Stderr, "unknown command", os.Args[1])
		os.Exit(2)
	}
}

func envInt(name string, def int64) int64 {
	if v := os.Getenv(name); v != "" {
		if n, err := strconv.ParseInt(v, 10, 64); err == nil {
			return n
		}
	}
	return def
}

func cmdCheck(args []string) int {
	fs := flag.NewFlagSet("check", flag.ExitOnError)
	tier := fs.String("tier", os.Getenv("VERIF_TIER"), "quick|thorough")
	only := fs.String("harness", "", "run only harnesses whose name contains this")
	workers := fs.Int("workers", runtime.NumCPU(), "worker count")
	trace := fs.Bool("trace", false, "trace instructions")
	noValidate := fs.Bool("no-validate", false, "skip native witness validation")
	noIfConv := fs.Bool("no-ifconv", false, "disable if-conversion")
	solver := fs.String("solver", "z3-new", "incremental solver: z3-new|z3|cvc5")
	maxPaths := fs.Int64("max-paths", 0, "path limit per harness (0 = none)")
	cpuprof := fs.String("cpuprofile", "", "write CPU profile")
	evDir := fs.String("evidence-dir", "", "write evidence and replay files here instead of /verif/evidence (seeded-change runs)")
	var prop string
	if len(args) > 0 && !strings.HasPrefix(args[0], "-") {
		prop = args[0]
		args = args[1:]
	}
	fs.Parse(args)
	if prop == "" {
		fmt.Fprintln(os.Stderr, "missing property id")
		return 2
	}
	if *tier == "" {
		*tier = "quick"
	}
	if *evDir != "" {
		evidenceDirOverride = *evDir
	}
	seed := envInt("VERIF_SEED", 1)
	start := time.Now()
	if *cpuprof != "" {
		f, _ := os.Create(*cpuprof)
		pprof.StartCPUProfile(f)
		defer pprof.StopCPUProfile()
	}
	cfg := Config{tier: *tier, seed: seed, workers: *workers, solver: *solver, queryTimeout: 60000,
		assertTimeout: 60 * time.Second, noIfConv: *noIfConv, budget: 20_000_000, maxPaths: *maxPaths, validate: 25, trace: *trace}
	if *tier == "thorough" {
		cfg.queryTimeout = 300000
		cfg.assertTimeout = 300 * time.Second
		cfg.validate = 250
	}
	if *noValidate {
		cfg.validate = 0
	}
	ev := &Evidence{PropertyID: prop, Tier: *tier, Seed: seed, Level: "model_checking"}
	inconclusive := func(msg string) int {
		fmt.Printf("INCONCLUSIVE property=%s %s\n", prop, msg)
		ev.Coverage.Explanation = "inconclusive: " + msg
		ev.WallS = time.Since(start).Seconds()
		ev.write()
		return 2
	}
	files, err := readHarnessFiles(prop)
	if err != nil || len(files) == 0 {
		return inconclusive(fmt.Sprintf("no harness files: %v", err))
	}
	ld, err := loadProgram(files)
	if err != nil {
		return inconclusive(err.Error())
	}
	fmt.Printf("loaded %d packages in %.1fs\n", len(ld.prog.AllPackages()), ld.loadTime.Seconds())

	var results []*HarnessResult
	dirs := make([]string, 0, len(ld.funcs))
	for d := range ld.funcs {
		dirs = append(dirs, d)
	}
	sort.Strings(dirs)
	resDir := map[*HarnessResult]string{}
	for _, dir := range dirs {
		sp := ld.pkgs[dir]
		for _, fn := range ld.funcs[dir] {
			if *only != "" && !strings.Contains(fn.Name(), *only) {
				continue
			}
			mk := func() *Interp {
				it := NewInterp(ld.prog)
				it.trace = *trace
				it.cfg = cfg
				it.runInit(sp)
				if os.Getenv("VERIF_DEBUG_INIT") != "" {
					for _, f := range it.initFail {
						fmt.Println("   initfail:", f)
					}
				}
				return it
			}
			fmt.Printf("== %s.%s\n", dir, fn.Name())
			res := Explore(ld.prog, fn, cfg, mk)
			results = append(results, res)
			resDir[res] = dir
			fmt.Printf("   paths=%d (done %d, vacuous %d, budget %d) decisions=%d instrs=%d maxPathInstr=%d solver: %d checks (%d sat/%d unsat/%d unknown) %.1fs; ifconv=%d; wall %.1fs\n",
				res.Paths, res.PathsDone, res.PathsAssume, res.PathsBudget, res.Decisions, res.Instructions, res.MaxPathInstr,
				res.SolverChecks, res.SolverSat, res.SolverUnsat, res.SolverUnknown, res.SolverTime.Seconds(), res.IfConv, res.Wall.Seconds())
			for _, m := range res.Inconclusive {
				fmt.Printf("   inconclusive: %s\n", m)
			}
		}
	}
	if len(results) == 0 {
		return inconclusive("no harness functions found")
	}

	// ---- native confirmation of violations and validation of witnesses ----
	type vkey struct{ h, l, in, tags string }
	distinct := map[vkey]*Violation{}
	// further instances of the same violation (other inputs): replayed natively too, so that one
	// instance that depends on something the native run does not share (allocator growth, ...) does
	// not hide the others
	const maxAlt = 3
	alts := map[vkey][]*Violation{}
	var order []vkey
	for _, r := range results {
		for i := range r.Violations {
			v := &r.Violations[i]
			k := vkey{v.Harness, v.Label, v.In, v.Tags}
			if _, ok := distinct[k]; !ok {
				distinct[k] = v
				order = append(order, k)
			} else if len(alts[k]) < maxAlt {
				alts[k] = append(alts[k], v)
			}
		}
	}
	tierN := 0
	if *tier == "thorough" {
		tierN = 1
	}
	byDir := map[string][]nativeVec{}
	for i, k := range order {
		v := distinct[k]
		dir := ""
		for _, r := range results {
			if r.Name == v.Harness {
				dir = resDir[r]
			}
		}
		byDir[dir] = append(byDir[dir], nativeVec{ID: fmt.Sprintf("viol-%d", i), Harness: v.Harness, Tier: tierN, Events: v.Events, Confirm: true})
		for j, a := range alts[k] {
			byDir[dir] = append(byDir[dir], nativeVec{ID: fmt.Sprintf("viol-%d-alt%d", i, j), Harness: a.Harness, Tier: tierN, Events: a.Events, Confirm: true})
		}
	}
	for _, r := range results {
		for i, w := range r.Witnesses {
			byDir[resDir[r]] = append(byDir[resDir[r]], nativeVec{ID: fmt.Sprintf("wit-%s-%d", r.Name, i), Harness: r.Name, Tier: tierN, Events: w.Events})
		}
	}
	native := map[string]nativeResult{}
	var nativeErr string
	if cfg.validate > 0 || len(order) > 0 {
		for dir, vecs := range byDir {
			var hn []string
			for _, fn := range ld.funcs[dir] {
				hn = append(hn, fn.Name())
			}
			out, err := runNative(prop, dir, ld, hn, vecs)
			if err != nil {
				nativeErr = err.Error()
				break
			}
			for _, r := range out {
				native[r.ID] = r
			}
		}
	}
	if nativeErr != "" {
		return inconclusive("native replay failed: " + nativeErr)
	}
	var problems []string
	validated := 0
	for _, r := range results {
		for i, w := range r.Witnesses {
			nr, ok := native[fmt.Sprintf("wit-%s-%d", r.Name, i)]
			if !ok {
				problems = append(problems, "missing native result for witness of "+r.Name)
				continue
			}
			want := "ok"
			if w.Outcome == "panic" {
				want = "panic"
			}
			got := nr.Outcome
			if strings.HasPrefix(got, "panic:") {
				got = "panic"
			}
			if got != want || (want == "ok" && strings.Join(nr.Observed, "|") != strings.Join(w.Observed, "|")) {
				problems = append(problems, fmt.Sprintf("witness mismatch in %s: engine %s %v, native %s %v (events %s)", r.Name, w.Outcome, w.Observed, nr.Outcome, nr.Observed, describeEvents(w.Events)))
				continue
			}
			validated++
		}
	}

	// ---- classify violations ----
	known := loadKnown()
	exit := 0
	nviol := 0
	knownPrinted := map[string]bool{}
	replayDir := filepath.Join(verifRoot(), "replay", prop)
	if evidenceDirOverride != "" {
		replayDir = filepath.Join(evidenceDirOverride, "replay")
	}
	os.MkdirAll(replayDir, 0o755)
	for i, k := range order {
		v := distinct[k]
		nr := native[fmt.Sprintf("viol-%d", i)]
		confirms := func(v *Violation, nr nativeResult) bool {
			switch v.Kind {
			case "assert":
				return nr.Outcome == "assert:"+v.Label
			case "panic":
				return strings.HasPrefix(nr.Outcome, "panic:")
			case "hang", "deadlock":
				return nr.Outcome == "timeout"
			}
			return false
		}
		confirmed := confirms(v, nr)
		if !confirmed {
			for j, a := range alts[k] {
				if anr := native[fmt.Sprintf("viol-%d-alt%d", i, j)]; confirms(a, anr) {
					v, nr, confirmed = a, anr, true
					break
				}
			}
		}
		if !confirmed && v.Sched {
			// a schedule-dependent instance: the native run took another interleaving. If it belongs to a
			// recorded known finding (same assertion, same tagged history class) -- which was confirmed
			// natively through its schedule-independent form -- it is that finding, not a new alarm.
			isKnown := false
			for _, kf := range known.Findings {
				if kf.Status == "known" && kf.Tag != "" && kf.Property == prop && kf.Harness == v.Harness && kf.Label == v.Label && kf.In == v.In && hasTag(v.Tags, kf.Tag) {
					isKnown = true
					key := kf.Harness + kf.Label + kf.In + kf.Tag
					if !knownPrinted[key] {
						knownPrinted[key] = true
						fmt.Printf("KNOWN-FINDING: property=%s %s [%s %s in %s, input class %q]\n", prop, kf.What, kf.Harness, kf.Label, kf.In, kf.Tag)
					}
				}
			}
			if isKnown {
				continue
			}
		}
		if !confirmed {
			problems = append(problems, fmt.Sprintf("counterexample for %s/%s (in %s) did not reproduce natively: native outcome %q; tags %q; events %s; detail %s", v.Harness, v.Label, v.In, nr.Outcome, v.Tags, describeEvents(v.Events), v.Detail))
			continue
		}
		matched := false
		for _, kf := range known.Findings {
			if kf.Status == "known" && kf.Property == prop && kf.Harness == v.Harness && kf.Label == v.Label && kf.In == v.In && hasTag(v.Tags, kf.Tag) {
				matched = true
				key := kf.Harness + kf.Label + kf.In + kf.Tag
				if os.Getenv("VERIF_SHOW_KNOWN") != "" {
					fmt.Printf("   known-finding instance: %s %s tags=%s input: %s\n", v.Harness, v.Label, v.Tags, describeEvents(v.Events))
				}
				if !knownPrinted[key] {
					knownPrinted[key] = true
					fmt.Printf("KNOWN-FINDING: property=%s %s [%s %s in %s, input class %q]\n", prop, kf.What, kf.Harness, kf.Label, kf.In, kf.Tag)
				}
			}
		}
		if matched {
			continue
		}
		nviol++
		safe := strings.Map(func(r rune) rune {
			if r == '/' || r == ' ' || r == ':' || r == '*' || r == '(' || r == ')' {
				return '_'
			}
			return r
		}, v.Harness+"-"+v.Label+"-"+v.In+"-"+v.Tags)
		rp := filepath.Join(replayDir, safe+".json")
		b, _ := json.MarshalIndent(map[string]interface{}{
			"property": prop, "harness": v.Harness, "label": v.Label, "in": v.In, "tags": v.Tags, "where": v.Where, "kind": v.Kind,
			"detail": v.Detail, "trace": v.Trace, "package_dir": byHarnessDir(results, resDir, v.Harness), "tier": tierN,
			"events": v.Events, "native_outcome": nr.Outcome, "native_detail": nr.Detail,
		}, "", " ")
		os.WriteFile(rp, b, 0o644)
		fmt.Printf("VIOLATION property=%s replay=%s\n", prop, rp)
		fmt.Printf("  harness=%s label=%s in=%s tags=%s (%s) %s\n  input: %s\n", v.Harness, v.Label, v.In, v.Tags, v.Where, v.Detail, describeEvents(v.Events))
		exit = 1
	}

	// ---- evidence ----
	ev.fill(results, ld, cfg, validated, nviol)
	incon := false
	for _, r := range results {
		if len(r.Inconclusive) > 0 {
			incon = true
			for _, m := range r.Inconclusive {
				ev.Coverage.Inconclusive = append(ev.Coverage.Inconclusive, r.Name+": "+m)
			}
		}
		if r.PathsDone == 0 {
			incon = true
			ev.Coverage.Inconclusive = append(ev.Coverage.Inconclusive, r.Name+": no path reached the end of the harness (vacuous)")
		}
	}
	for _, p := range problems {
		incon = true
		ev.Coverage.Inconclusive = append(ev.Coverage.Inconclusive, p)
		fmt.Printf("   problem: %s\n", p)
	}
	ev.Violations = nviol
	ev.WallS = time.Since(start).Seconds()
	ev.write()
	if exit == 1 {
		return 1
	}
	if incon {
		fmt.Printf("INCONCLUSIVE property=%s (%d issues; see evidence)\n", prop, len(ev.Coverage.Inconclusive))
		return 2
	}
	fmt.Printf("OK property=%s tier=%s paths=%d assertion-queries=%d validated=%d wall=%.1fs\n", prop, *tier, ev.Coverage.States, ev.Coverage.Queries["assertion"], validated, ev.WallS)
	return 0
}

func byHarnessDir(results []*HarnessResult, resDir map[*HarnessResult]string, h string) string {
	for _, r := range results {
		if r.Name == h {
			return resDir[r]
		}
	}
	return ""
}

// ---- native replay ----

type nativeVec struct {
	Confirm bool          `json:"confirm"`
	ID      string        `json:"id"`
	Harness string        `json:"harness"`
	Tier    int           `json:"tier"`
	Events  []NondetEvent `json:"events"`
}

type nativeResult struct {
	ID       string   `json:"id"`
	Harness  string   `json:"harness"`
	Outcome  string   `json:"outcome"`
	Observed []string `json:"observed"`
	Detail   string   `json:"detail"`
}

func pkgNameOf(ld *Loaded, dir string) string {
	return ld.pkgs[dir].Pkg.Name()
}

func runNative(prop, dir string, ld *Loaded, harnesses []string, vecs []nativeVec) ([]nativeResult, error) {
	work, err := os.MkdirTemp("", "verif-native-")
	if err != nil {
		return nil, err
	}
	defer os.RemoveAll(work)
	var sb strings.Builder
	fmt.Fprintf(&sb, "//go:build verif\n\npackage %s\n\nimport (\n\t\"encoding/json\"\n\t\"os\"\n\t\"testing\"\n\n\t\"%s/zzverif/verifrt\"\n)\n\n", pkgNameOf(ld, dir), modPath)
	sb.WriteString("func TestVerifReplay(t *testing.T) {\n\ths := map[string]func(){\n")
	for _, h := range harnesses {
		fmt.Fprintf(&sb, "\t\t%q: %s,\n", h, h)
	}
	sb.WriteString("\t}\n")
	sb.WriteString(`	data, err := os.ReadFile(os.Getenv("VERIF_VECTORS"))
	if err != nil {
		t.Fatal(err)
	}
	var vecs []verifrt.Vector
	if err := json.Unmarshal(data, &vecs); err != nil {
		t.Fatal(err)
	}
	out, err := os.Create(os.Getenv("VERIF_OUT"))
	if err != nil {
		t.Fatal(err)
	}
	defer out.Close()
	enc := json.NewEncoder(out)
	for i := range vecs {
		f, ok := hs[vecs[i].Harness]
		if !ok {
			enc.Encode(verifrt.Result{ID: vecs[i].ID, Harness: vecs[i].Harness, Outcome: "vector:no such harness"})
			continue
		}
		enc.Encode(verifrt.RunOne(&vecs[i], f))
	}
}
`)
	testFile := filepath.Join(work, "zz_verif_replay_test.go")
	if err := os.WriteFile(testFile, []byte(sb.String()), 0o644); err != nil {
		return nil, err
	}
	repl := map[string]string{}
	for dst := range ld.overlay {
		// write overlay contents to work dir (sources are in /verif, but keep it uniform)
		src := filepath.Join(work, strings.ReplaceAll(strings.TrimPrefix(dst, "/"), "/", "__"))
		if err := os.WriteFile(src, ld.overlay[dst], 0o644); err != nil {
			return nil, err
		}
		repl[dst] = src
	}
	repl[filepath.Join(repoDir, dir, "zz_verif_replay_test.go")] = testFile
	ovb, _ := json.Marshal(map[string]interface{}{"Replace": repl})
	ovPath := filepath.Join(work, "overlay.json")
	os.WriteFile(ovPath, ovb, 0o644)
	vecPath := filepath.Join(work, "vectors.json")
	outPath := filepath.Join(work, "out.jsonl")
	var res []nativeResult
	remaining := vecs
	for attempt := 0; len(remaining) > 0 && attempt < len(vecs)+2; attempt++ {
		vb, _ := json.Marshal(remaining)
		os.WriteFile(vecPath, vb, 0o644)
		os.Remove(outPath)
		timeout := 120 + 31*len(remaining) // (each vector has a 10 s guard, 30 s when confirming)
		cmd := exec.Command("timeout", strconv.Itoa(timeout), "go", "test", "-tags", "verif", "-vet=off", "-count=1", "-overlay", ovPath,
			"-run", "^TestVerifReplay$", "-timeout", strconv.Itoa(timeout)+"s", "./"+dir)
		cmd.Dir = repoDir
		cmd.Env = append(os.Environ(), "GOFLAGS=-mod=mod", "GOPROXY=off", "GOSUMDB=off", "GOTOOLCHAIN=local", "VERIF_VECTORS="+vecPath, "VERIF_OUT="+outPath)
		outb, err := cmd.CombinedOutput()
		data, rerr := os.ReadFile(outPath)
		if rerr != nil {
			return nil, fmt.Errorf("go test failed: %v\n%s", err, tail(string(outb), 3000))
		}
		got := 0
		for _, line := range strings.Split(string(data), "\n") {
			if strings.TrimSpace(line) == "" {
				continue
			}
			var r nativeResult
			if err := json.Unmarshal([]byte(line), &r); err != nil {
				return nil, err
			}
			res = append(res, r)
			got++
		}
		if got >= len(remaining) {
			remaining = nil
			break
		}
		// the test process died while running vector number `got` (e.g. a panic in a goroutine that
		// nothing can recover): record that as its outcome and carry on with the rest
		crashed := remaining[got]
		res = append(res, nativeResult{ID: crashed.ID, Harness: crashed.Harness, Outcome: "panic:process crashed", Detail: tail(string(outb), 1500)})
		remaining = remaining[got+1:]
	}
	if len(res) != len(vecs) {
		return res, fmt.Errorf("native replay produced %d results for %d vectors", len(res), len(vecs))
	}
	return res, nil
}

func tail(s string, n int) string {
	if len(s) > n {
		return "…" + s[len(s)-n:]
	}
	return s
}

func cmdReplay(args []string) int {
	if len(args) < 1 {
		fmt.Fprintln(os.Stderr, "usage: verif replay <file>")
		return 2
	}
	b, err := os.ReadFile(args[0])
	if err != nil {
		fmt.Fprintln(os.Stderr, err)
		return 2
	}
	var rec struct {
		Property string        `json:"property"`
		Harness  string        `json:"harness"`
		Label    string        `json:"label"`
		Kind     string        `json:"kind"`
		Dir      string        `json:"package_dir"`
		Tier     int           `json:"tier"`
		Events   []NondetEvent `json:"events"`
	}
	if err := json.Unmarshal(b, &rec); err != nil {
		fmt.Fprintln(os.Stderr, err)
		return 2
	}
	files, err := readHarnessFiles(rec.Property)
	if err != nil {
		fmt.Fprintln(os.Stderr, err)
		return 2
	}
	ld, err := loadProgram(files)
	if err != nil {
		fmt.Fprintln(os.Stderr, err)
		return 2
	}
	var hn []string
	for _, fn := range ld.funcs[rec.Dir] {
		hn = append(hn, fn.Name())
	}
	res, err := runNative(rec.Property, rec.Dir, ld, hn, []nativeVec{{ID: "replay", Harness: rec.Harness, Tier: rec.Tier, Events: rec.Events, Confirm: true}})
	if err != nil {
		fmt.Fprintln(os.Stderr, err)
		return 2
	}
	fmt.Printf("native outcome: %s\n%s\n", res[0].Outcome, res[0].Detail)
	if res[0].Outcome == "ok" || res[0].Outcome == "assume" {
		return 0
	}
	fmt.Printf("VIOLATION property=%s replay=%s\n", rec.Property, args[0])
	return 1
}

var _ = ssa.NaiveForm
