package main

import (
	"fmt"
	"go/constant"
	"go/token"
	"go/types"
	"math"
	"unicode/utf8"

	"golang.org/x/tools/go/ssa"
)

func (it *Interp) constValue(c *ssa.Const) Value {
	if v, ok := it.consts[c]; ok {
		return v
	}
	v := it.constValue1(c)
	it.consts[c] = v
	return v
}

func (it *Interp) constValue1(c *ssa.Const) Value {
	if c.Value == nil {
		return it.zero(c.Type())
	}
	t := c.Type()
	if tp, ok := t.(*types.TypeParam); ok {
		_ = tp
		panic(engineErr("const of type param"))
	}
	if b, ok := t.Underlying().(*types.Basic); ok {
		switch {
		case b.Info()&types.IsBoolean != 0:
			return it.tt.Bool(constant.BoolVal(c.Value))
		case b.Info()&types.IsString != 0:
			if c.Value.Kind() == constant.String {
				return it.mkStr(constant.StringVal(c.Value))
			}
			return it.mkStr(string(rune(c.Int64())))
		case b.Info()&types.IsInteger != 0:
			w, _ := basicWidth(b.Kind())
			if isSignedKind(b.Kind()) {
				return it.tt.Const(w, uint64(c.Int64()))
			}
			return it.tt.Const(w, c.Uint64())
		case b.Info()&types.IsFloat != 0:
			if b.Kind() == types.Float32 {
				return float32(c.Float64())
			}
			return c.Float64()
		case b.Info()&types.IsComplex != 0:
			return c.Complex128()
		}
	}
	panic(engineErr("constValue: unsupported %v : %v", c, t))
}

func (it *Interp) unop(fr *frame, instr *ssa.UnOp, x Value) Value {
	if p, ok := x.(Poison); ok && instr.Op != token.MUL {
		return p
	}
	switch instr.Op {
	case token.ARROW:
		return it.chanRecv(fr, x, instr.CommaOk, instr.Type())
	case token.MUL:
		return it.loadPtr(x)
	case token.SUB:
		switch x := x.(type) {
		case *Term:
			return it.tt.Neg(x)
		case float64:
			return -x
		case float32:
			return -x
		}
	case token.NOT:
		return it.tt.Not(x.(*Term))
	case token.XOR:
		return it.tt.BNot(x.(*Term))
	}
	panic(engineErr("unop %v on %T", instr.Op, x))
}

func (it *Interp) divCheck(y *Term) {
	z := it.tt.Eq(y, it.tt.Const(y.W, 0))
	if z.Op == OpConst {
		if z.Val != 0 {
			panic(it.runtimePanic("divide", "integer divide by zero"))
		}
		return
	}
	if it.spec > 0 {
		panic(specAbort{"symbolic divisor"})
	}
	if it.branch(z) {
		panic(it.runtimePanic("divide", "integer divide by zero"))
	}
}

func (it *Interp) strLess(x, y Str, orEqual bool) *Term {
	// lexicographic comparison
	tt := it.tt
	n := len(x.b)
	if len(y.b) < n {
		n = len(y.b)
	}
	var tail *Term
	if len(x.b) < len(y.b) {
		tail = tt.tru
	} else if len(x.b) == len(y.b) {
		tail = tt.Bool(orEqual)
	} else {
		tail = tt.fls
	}
	r := tail
	for i := n - 1; i >= 0; i-- {
		lt := tt.ULt(x.b[i], y.b[i])
		eq := tt.Eq(x.b[i], y.b[i])
		r = tt.Or(lt, tt.And(eq, r))
	}
	return r
}

func (it *Interp) binop(op token.Token, t types.Type, x, y Value) Value {
	tt := it.tt
	if p, ok := x.(Poison); ok {
		return p
	}
	if p, ok := y.(Poison); ok {
		return p
	}
	switch op {
	case token.EQL:
		return it.equals(x, y)
	case token.NEQ:
		return tt.Not(it.equals(x, y))
	}
	switch x := x.(type) {
	case *Term:
		yt, ok := y.(*Term)
		if !ok {
			panic(engineErr("binop %v: %T vs %T", op, x, y))
		}
		signed := isSigned(t)
		switch op {
		case token.ADD:
			return tt.Add(x, yt)
		case token.SUB:
			return tt.Sub(x, yt)
		case token.MUL:
			return tt.Mul(x, yt)
		case token.QUO:
			it.divCheck(yt)
			if signed {
				return tt.SDiv(x, yt)
			}
			return tt.UDiv(x, yt)
		case token.REM:
			it.divCheck(yt)
			if signed {
				return tt.SRem(x, yt)
			}
			return tt.URem(x, yt)
		case token.AND:
			if x.W == 0 {
				return tt.And(x, yt)
			}
			return tt.BAnd(x, yt)
		case token.OR:
			if x.W == 0 {
				return tt.Or(x, yt)
			}
			return tt.BOr(x, yt)
		case token.XOR:
			if x.W == 0 {
				return tt.Not(tt.Eq(x, yt))
			}
			return tt.BXor(x, yt)
		case token.AND_NOT:
			return tt.BAnd(x, tt.BNot(yt))
		case token.SHL, token.SHR:
			return it.shift(op, x, yt, signed)
		case token.LSS:
			if signed {
				return tt.SLt(x, yt)
			}
			return tt.ULt(x, yt)
		case token.LEQ:
			if signed {
				return tt.SLe(x, yt)
			}
			return tt.ULe(x, yt)
		case token.GTR:
			if signed {
				return tt.SLt(yt, x)
			}
			return tt.ULt(yt, x)
		case token.GEQ:
			if signed {
				return tt.SLe(yt, x)
			}
			return tt.ULe(yt, x)
		}
	case Str:
		ys := y.(Str)
		switch op {
		case token.ADD:
			b := make([]*Term, 0, len(x.b)+len(ys.b))
			b = append(b, x.b...)
			b = append(b, ys.b...)
			return Str{b}
		case token.LSS:
			return it.strLess(x, ys, false)
		case token.LEQ:
			return it.strLess(x, ys, true)
		case token.GTR:
			return it.strLess(ys, x, false)
		case token.GEQ:
			return it.strLess(ys, x, true)
		}
	case float64:
		yf := y.(float64)
		switch op {
		case token.ADD:
			return x + yf
		case token.SUB:
			return x - yf
		case token.MUL:
			return x * yf
		case token.QUO:
			return x / yf
		case token.LSS:
			return tt.Bool(x < yf)
		case token.LEQ:
			return tt.Bool(x <= yf)
		case token.GTR:
			return tt.Bool(x > yf)
		case token.GEQ:
			return tt.Bool(x >= yf)
		}
	case float32:
		yf := y.(float32)
		switch op {
		case token.ADD:
			return x + yf
		case token.SUB:
			return x - yf
		case token.MUL:
			return x * yf
		case token.QUO:
			return x / yf
		case token.LSS:
			return tt.Bool(x < yf)
		case token.LEQ:
			return tt.Bool(x <= yf)
		case token.GTR:
			return tt.Bool(x > yf)
		case token.GEQ:
			return tt.Bool(x >= yf)
		}
	}
	panic(engineErr("binop %v on %T, %T", op, x, y))
}

func (it *Interp) shift(op token.Token, x, y *Term, signed bool) Value {
	tt := it.tt
	// shift count is unsigned or checked non-negative by the compiler for constants; negative signed counts panic.
	w := x.W
	var cnt *Term
	var big *Term // count >= width
	if y.W == w {
		cnt = y
		big = tt.ULe(tt.Const(w, uint64(w)), y)
	} else if y.W < w {
		cnt = tt.ZExt(y, w)
		big = tt.ULe(tt.Const(w, uint64(w)), cnt)
	} else {
		cnt = tt.Trunc(y, w)
		big = tt.ULe(tt.Const(y.W, uint64(w)), y)
	}
	switch op {
	case token.SHL:
		r := tt.Shl(x, cnt)
		return tt.Ite(big, tt.Const(w, 0), r)
	default:
		if signed {
			r := tt.AShr(x, cnt)
			return tt.Ite(big, tt.AShr(x, tt.Const(w, uint64(w-1))), r)
		}
		r := tt.LShr(x, cnt)
		return tt.Ite(big, tt.Const(w, 0), r)
	}
}

func (it *Interp) conv(tdst, tsrc types.Type, x Value) Value {
	if p, ok := x.(Poison); ok {
		return p
	}
	ud := tdst.Underlying()
	us := tsrc.Underlying()
	tt := it.tt
	switch x := x.(type) {
	case *Term:
		if db, ok := ud.(*types.Basic); ok {
			switch {
			case db.Info()&types.IsInteger != 0:
				w, _ := basicWidth(db.Kind())
				if x.W == w {
					return x
				}
				if x.W > w {
					return tt.Trunc(x, w)
				}
				if isSigned(tsrc) {
					return tt.SExt(x, w)
				}
				return tt.ZExt(x, w)
			case db.Info()&types.IsString != 0:
				// string(rune)
				if x.Op == OpConst {
					r := rune(sext64(x.Val, x.W))
					if isSigned(tsrc) && sext64(x.Val, x.W) != int64(r) || !isSigned(tsrc) && x.Val > 0x10ffff {
						r = utf8.RuneError
					}
					return it.mkStr(string(r))
				}
				// symbolic rune: ASCII if provable else fork via concretize on class
				r32 := x
				if x.W != 32 {
					if x.W > 32 {
						r32 = tt.Trunc(x, 32)
					} else {
						r32 = tt.ZExt(x, 32)
					}
				}
				return it.encodeRuneSym(r32)
			case db.Info()&types.IsFloat != 0:
				if x.Op != OpConst {
					panic(engineErr("symbolic int to float conversion"))
				}
				var f float64
				if isSigned(tsrc) {
					f = float64(sext64(x.Val, x.W))
				} else {
					f = float64(x.Val)
				}
				if db.Kind() == types.Float32 {
					return float32(f)
				}
				return f
			case db.Kind() == types.UnsafePointer:
				// uintptr -> unsafe.Pointer
				if x.Op == OpConst && x.Val == 0 {
					return UPtr{}
				}
				panic(engineErr("uintptr to unsafe.Pointer"))
			}
		}
	case Str:
		switch d := ud.(type) {
		case *types.Basic:
			if d.Info()&types.IsString != 0 {
				return x
			}
		case *types.Slice:
			eb, _ := d.Elem().Underlying().(*types.Basic)
			if eb != nil && eb.Kind() == types.Uint8 {
				sl := make([]Value, len(x.b))
				for i, b := range x.b {
					sl[i] = b
				}
				return sl
			}
			if eb != nil && eb.Kind() == types.Int32 {
				// []rune(s)
				if s, ok := x.concrete(); ok {
					var sl []Value = []Value{}
					for _, r := range s {
						sl = append(sl, tt.Const(32, uint64(r)))
					}
					return sl
				}
				// symbolic: decode via real utf8 code
				sl := []Value{}
				rest := x
				for len(rest.b) > 0 {
					r, size := it.decodeRune(it.curFrame(), rest)
					sl = append(sl, r)
					rest = Str{rest.b[size:]}
				}
				return sl
			}
		}
	case []Value:
		if db, ok := ud.(*types.Basic); ok && db.Info()&types.IsString != 0 {
			es, _ := us.(*types.Slice)
			eb, _ := es.Elem().Underlying().(*types.Basic)
			if eb.Kind() == types.Uint8 {
				b := make([]*Term, len(x))
				for i, v := range x {
					b[i] = v.(*Term)
				}
				return Str{b}
			}
			if eb.Kind() == types.Int32 {
				var out []*Term
				for _, v := range x {
					r := v.(*Term)
					if r.Op == OpConst {
						out = append(out, it.mkStr(string(rune(sext64(r.Val, 32)))).b...)
					} else {
						s := it.conv(types.Typ[types.String], types.Typ[types.Rune], r).(Str)
						out = append(out, s.b...)
					}
				}
				return Str{out}
			}
		}
		if _, ok := ud.(*types.Slice); ok {
			return x
		}
	case float64:
		return it.convFloat(ud, x)
	case float32:
		return it.convFloat(ud, float64(x))
	case *Value:
		if db, ok := ud.(*types.Basic); ok && db.Kind() == types.UnsafePointer {
			return UPtr{p: x}
		}
		if _, ok := ud.(*types.Pointer); ok {
			return x
		}
	case SlicePtr, StrPtr:
		if db, ok := ud.(*types.Basic); ok && db.Kind() == types.UnsafePointer {
			return UPtr{p: x}
		}
		return x
	case UPtr:
		switch d := ud.(type) {
		case *types.Pointer:
			if x.p == nil {
				return (*Value)(nil)
			}
			if p, ok := x.p.(*Value); ok {
				return p
			}
			switch x.p.(type) {
			case SlicePtr, StrPtr:
				return x.p
			}
			if up, ok := x.p.(UPtr); ok {
				return it.conv(tdst, tsrc, up)
			}
			panic(engineErr("unsafe.Pointer(%T) to %v", x.p, tdst))
		case *types.Basic:
			if d.Kind() == types.UnsafePointer {
				return x
			}
			if d.Kind() == types.Uintptr {
				if n, _ := isNilValue(x); n {
					return tt.Const(64, 0)
				}
				return tt.Const(64, 0xdead0000) // opaque non-zero address
			}
		}
	case complex128:
		return x
	case *ssa.Function, *Closure, *Map, *Chan, Iface, Struct, Array:
		return x
	}
	panic(engineErr("conv %v -> %v (%T)", tsrc, tdst, x))
}

func (it *Interp) convFloat(ud types.Type, f float64) Value {
	db, ok := ud.(*types.Basic)
	if !ok {
		panic(engineErr("float conv to %v", ud))
	}
	switch {
	case db.Kind() == types.Float32:
		return float32(f)
	case db.Kind() == types.Float64:
		return f
	case db.Info()&types.IsInteger != 0:
		w, _ := basicWidth(db.Kind())
		if isSignedKind(db.Kind()) {
			return it.tt.Const(w, uint64(int64(f)))
		}
		if f >= math.MaxInt64 {
			return it.tt.Const(w, uint64(f))
		}
		return it.tt.Const(w, uint64(int64(f)))
	}
	panic(engineErr("float conv to %v", ud))
}

func (it *Interp) curFrame() *frame {
	if it.cur != nil {
		return it.cur.top
	}
	return it.topFrame
}

// ---- builtins ----

func (it *Interp) callBuiltin(caller *frame, fn *ssa.Builtin, args []Value, site ssa.Instruction) Value {
	tt := it.tt
	switch fn.Name() {
	case "append":
		if len(args) == 1 {
			return args[0]
		}
		var src []Value
		switch s := args[1].(type) {
		case Str:
			src = make([]Value, len(s.b))
			for i, b := range s.b {
				src[i] = b
			}
		case []Value:
			src = s
		default:
			panic(engineErr("append of %T", s))
		}
		dst, ok := args[0].([]Value)
		if !ok {
			panic(engineErr("append to %T", args[0]))
		}
		if len(src) == 0 {
			return dst
		}
		if it.spec > 0 {
			panic(specAbort{"append"})
		}
		n := len(dst) + len(src)
		if n <= cap(dst) {
			out := dst[:n]
			for i, v := range src {
				it.storeInPlace(&out[len(dst)+i], v)
			}
			return out
		}
		nc := cap(dst) * 2
		if nc < n {
			nc = n
		}
		if nc < 4 {
			nc = 4
		}
		out := make([]Value, n, nc)
		copy(out, dst)
		for i, v := range src {
			out[len(dst)+i] = copyVal(v)
		}
		// fill spare capacity with zero of element type lazily: use nil marker replaced on reslice
		if nc > n {
			var z Value
			if len(out) > 0 {
				z = zeroLike(it, out[0])
			}
			full := out[:nc]
			for i := n; i < nc; i++ {
				full[i] = copyVal(z)
			}
		}
		return out
	case "copy":
		dst := args[0].([]Value)
		var src []Value
		switch s := args[1].(type) {
		case Str:
			src = make([]Value, len(s.b))
			for i, b := range s.b {
				src[i] = b
			}
		case []Value:
			src = s
		}
		n := len(dst)
		if len(src) < n {
			n = len(src)
		}
		if n > 0 && it.spec > 0 {
			panic(specAbort{"copy"})
		}
		// handle overlap like Go's memmove
		tmp := make([]Value, n)
		for i := 0; i < n; i++ {
			tmp[i] = copyVal(src[i])
		}
		for i := 0; i < n; i++ {
			it.storeInPlace(&dst[i], tmp[i])
		}
		return it.mkInt(n)
	case "close":
		it.chanClose(caller, args[0])
		return nil
	case "delete":
		it.mapDelete(args[0].(*Map), args[1])
		return nil
	case "clear":
		switch x := args[0].(type) {
		case *Map:
			if x != nil {
				for _, e := range x.live() {
					it.mapDelete(x, e.k)
				}
			}
		case []Value:
			for i := range x {
				it.storeInPlace(&x[i], zeroLike(it, x[i]))
			}
		}
		return nil
	case "print", "println":
		return nil
	case "len":
		switch x := args[0].(type) {
		case Str:
			return it.mkInt(len(x.b))
		case Array:
			return it.mkInt(len(x))
		case *Value:
			if x == nil {
				// len of nil *array: use type
				return it.mkInt(0)
			}
			return it.mkInt(len((*x).(Array)))
		case []Value:
			return it.mkInt(len(x))
		case *Map:
			if x == nil {
				return it.mkInt(0)
			}
			if x.hasSym() {
				// keys might alias only if inserted via symbolic equality decisions, which were forked: count is exact
			}
			return it.mkInt(x.n)
		case *Chan:
			if x == nil {
				return it.mkInt(0)
			}
			return it.mkInt(len(x.buf))
		case Poison:
			return x
		}
		panic(engineErr("len of %T", args[0]))
	case "cap":
		switch x := args[0].(type) {
		case Array:
			return it.mkInt(len(x))
		case *Value:
			return it.mkInt(len((*x).(Array)))
		case []Value:
			return it.mkInt(cap(x))
		case *Chan:
			if x == nil {
				return it.mkInt(0)
			}
			return it.mkInt(x.cap)
		}
		panic(engineErr("cap of %T", args[0]))
	case "min", "max":
		r := args[0]
		for _, a := range args[1:] {
			switch x := r.(type) {
			case *Term:
				y := a.(*Term)
				signed := true
				if call, ok := site.(*ssa.Call); ok {
					signed = isSigned(call.Type())
				}
				var lt *Term
				if signed {
					lt = tt.SLt(y, x)
				} else {
					lt = tt.ULt(y, x)
				}
				if fn.Name() == "max" {
					lt = tt.Not(tt.Or(lt, tt.Eq(x, y)))
					// max: pick y if y > x  == !(y<=x)
				}
				r = tt.Ite(lt, y, x)
			case float64:
				if fn.Name() == "min" {
					r = math.Min(x, a.(float64))
				} else {
					r = math.Max(x, a.(float64))
				}
			default:
				panic(engineErr("min/max of %T", r))
			}
		}
		return r
	case "panic":
		panic(it.explicitPanic(args[0]))
	case "recover":
		return it.doRecover(caller)
	case "ssa:wrapnilchk":
		recv := args[0]
		if n, ok := isNilValue(recv); ok && n {
			panic(it.runtimePanic("nil", fmt.Sprintf("value method %s.%s called using nil pointer", valString(args[1]), valString(args[2]))))
		}
		return recv
	case "SliceData":
		sl, ok := args[0].([]Value)
		if !ok {
			panic(engineErr("unsafe.SliceData of %T", args[0]))
		}
		if sl == nil {
			return (*Value)(nil)
		}
		return SlicePtr{sl: sl[:cap(sl)]}
	case "StringData":
		return StrPtr{s: args[0].(Str)}
	case "String":
		n := it.shapeInt(args[1], "unsafe.String len")
		switch p := args[0].(type) {
		case SlicePtr:
			if n > len(p.sl) {
				panic(engineErr("unsafe.String beyond backing array"))
			}
			b := make([]*Term, n)
			for i := 0; i < n; i++ {
				b[i] = p.sl[i].(*Term)
			}
			return Str{b}
		case StrPtr:
			return Str{p.s.b[:n]}
		case *Value:
			if n == 0 {
				return Str{}
			}
			if n == 1 && p != nil {
				return Str{[]*Term{(*p).(*Term)}}
			}
			// &b[i] pattern: recover the backing slice from the SSA operand
			if sl, off, ok := it.backingOf(caller, site, 0); ok && off+n <= len(sl) {
				b := make([]*Term, n)
				for i := 0; i < n; i++ {
					b[i] = sl[off+i].(*Term)
				}
				return Str{b}
			}
		}
		panic(engineErr("unsafe.String of %T len %d", args[0], n))
	case "Slice":
		n := it.shapeInt(args[1], "unsafe.Slice len")
		switch p := args[0].(type) {
		case SlicePtr:
			if n > len(p.sl) {
				panic(engineErr("unsafe.Slice beyond backing array"))
			}
			return p.sl[:n:n]
		case StrPtr:
			out := make([]Value, n)
			for i := 0; i < n; i++ {
				out[i] = p.s.b[i]
			}
			return out
		case *Value:
			if p == nil || n == 0 {
				return []Value(nil)
			}
			if sl, off, ok := it.backingOf(caller, site, 0); ok && off+n <= cap(sl) {
				return sl[off : off+n : off+n]
			}
		}
		panic(engineErr("unsafe.Slice of %T", args[0]))
	case "real":
		return real(args[0].(complex128))
	case "imag":
		return imag(args[0].(complex128))
	case "complex":
		return complex(args[0].(float64), args[1].(float64))
	}
	panic(engineErr("unknown built-in: %s", fn.Name()))
}

func zeroLike(it *Interp, v Value) Value {
	switch v := v.(type) {
	case *Term:
		return it.tt.Const(v.W, 0)
	case Str:
		return Str{}
	case Struct:
		s := make(Struct, len(v))
		for i := range v {
			s[i] = zeroLike(it, v[i])
		}
		return s
	case Array:
		s := make(Array, len(v))
		for i := range v {
			s[i] = zeroLike(it, v[i])
		}
		return s
	case *Value:
		return (*Value)(nil)
	case []Value:
		return []Value(nil)
	case *Map:
		return (*Map)(nil)
	case *Chan:
		return (*Chan)(nil)
	case Iface:
		return Iface{}
	case *ssa.Function, *Closure, *NativeFunc:
		return (*ssa.Function)(nil)
	case float64:
		return float64(0)
	case float32:
		return float32(0)
	case UPtr:
		return UPtr{}
	case nil:
		return nil
	}
	panic(engineErr("zeroLike %T", v))
}

func (it *Interp) doRecover(caller *frame) Value {
	// recover() must be called directly by a deferred function of a panicking frame.
	if caller != nil && !caller.panicking && caller.caller != nil && caller.caller.panicking {
		caller.caller.panicking = false
		p := caller.caller.panic
		caller.caller.panic = nil
		return p.v
	}
	return Iface{}
}

// backingOf recovers (slice, offset) when argument argIdx of the call at site was computed by an
// IndexAddr in the calling frame (the &b[i] idiom handed to unsafe.String / unsafe.Slice).
func (it *Interp) backingOf(caller *frame, site ssa.Instruction, argIdx int) ([]Value, int, bool) {
	call, ok := site.(*ssa.Call)
	if !ok || caller == nil || argIdx >= len(call.Call.Args) {
		return nil, 0, false
	}
	ia, ok := call.Call.Args[argIdx].(*ssa.IndexAddr)
	if !ok {
		return nil, 0, false
	}
	off, ok := concInt(caller.get(ia.Index))
	if !ok {
		return nil, 0, false
	}
	switch x := caller.get(ia.X).(type) {
	case []Value:
		return x[:cap(x)], int(off), true
	case *Value:
		if x != nil {
			if a, ok := (*x).(Array); ok {
				return a, int(off), true
			}
		}
	}
	return nil, 0, false
}

// encodeRuneSym is utf8.AppendRune for a symbolic rune: forks on the encoding length only.
func (it *Interp) encodeRuneSym(r *Term) Str {
	tt := it.tt
	c := func(v uint64) *Term { return tt.Const(32, v) }
	b := func(t *Term) *Term { return tt.Trunc(t, 8) }
	if it.branch(tt.ULt(r, c(0x80))) {
		return Str{[]*Term{b(r)}}
	}
	if it.branch(tt.ULt(r, c(0x800))) {
		return Str{[]*Term{b(tt.BOr(c(0xC0), tt.LShr(r, c(6)))), b(tt.BOr(c(0x80), tt.BAnd(r, c(0x3F))))}}
	}
	bad := tt.Or(tt.ULt(c(0x10FFFF), r), tt.And(tt.ULe(c(0xD800), r), tt.ULe(r, c(0xDFFF))))
	if it.branch(bad) {
		return it.mkStr("\uFFFD")
	}
	if it.branch(tt.ULt(r, c(0x10000))) {
		return Str{[]*Term{b(tt.BOr(c(0xE0), tt.LShr(r, c(12)))), b(tt.BOr(c(0x80), tt.BAnd(tt.LShr(r, c(6)), c(0x3F)))), b(tt.BOr(c(0x80), tt.BAnd(r, c(0x3F))))}}
	}
	return Str{[]*Term{b(tt.BOr(c(0xF0), tt.LShr(r, c(18)))), b(tt.BOr(c(0x80), tt.BAnd(tt.LShr(r, c(12)), c(0x3F)))),
		b(tt.BOr(c(0x80), tt.BAnd(tt.LShr(r, c(6)), c(0x3F)))), b(tt.BOr(c(0x80), tt.BAnd(r, c(0x3F))))}}
}
