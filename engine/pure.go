package main

// Pure-call merging: a call to a function that is statically side-effect free is executed with
// *both* sides of every symbolic branch and the results are merged into ite terms, so that small
// predicates (Available(), isSpace(), &&/|| chains with early returns) do not fork the path.

import (
	"go/token"

	"golang.org/x/tools/go/ssa"
)

const (
	pureUnknown int8 = iota
	pureYes
	pureNo
	pureBusy
)

var pureIntrinsics = map[string]bool{
	"sync/atomic.LoadInt32": true, "sync/atomic.LoadInt64": true, "sync/atomic.LoadUint32": true, "sync/atomic.LoadUint64": true,
	"sync/atomic.LoadUintptr": true, "sync/atomic.LoadPointer": true,
	"internal/bytealg.Equal": true, "internal/bytealg.Compare": true, "internal/bytealg.Count": true, "internal/bytealg.CountString": true,
	"internal/abi.NoEscape": true, "strings.ToLower": true, "strings.ToUpper": true,
}

const pureStepCap = 6000

func (it *Interp) staticPure(fn *ssa.Function) bool {
	if it.pureCache == nil {
		it.pureCache = map[*ssa.Function]int8{}
	}
	switch it.pureCache[fn] {
	case pureYes:
		return true
	case pureNo, pureBusy:
		return false
	}
	it.pureCache[fn] = pureBusy
	ok := it.staticPure1(fn)
	if ok {
		it.pureCache[fn] = pureYes
	} else {
		it.pureCache[fn] = pureNo
	}
	return ok
}

func (it *Interp) staticPure1(fn *ssa.Function) bool {
	name := fn.String()
	if o := fn.Origin(); o != nil {
		name = o.String()
	}
	if _, isIntr := intrinsics[name]; isIntr {
		return pureIntrinsics[name]
	}
	if fn.Blocks == nil || len(fn.Blocks) > 60 || fn.Recover != nil {
		return false
	}
	n := 0
	for _, b := range fn.Blocks {
		for _, ins := range b.Instrs {
			n++
			switch ins := ins.(type) {
			case *ssa.BinOp, *ssa.Convert, *ssa.ChangeType, *ssa.ChangeInterface, *ssa.MakeInterface, *ssa.Extract, *ssa.Field,
				*ssa.FieldAddr, *ssa.Index, *ssa.IndexAddr, *ssa.Lookup, *ssa.Slice, *ssa.Phi, *ssa.If, *ssa.Jump, *ssa.Return,
				*ssa.TypeAssert, *ssa.DebugRef, *ssa.Panic, *ssa.MultiConvert:
			case *ssa.UnOp:
				if ins.Op == token.ARROW {
					return false
				}
			case *ssa.Call:
				switch callee := ins.Call.Value.(type) {
				case *ssa.Builtin:
					switch callee.Name() {
					case "len", "cap", "min", "max", "ssa:wrapnilchk", "String", "StringData", "SliceData":
					default:
						return false
					}
				case *ssa.Function:
					if !it.staticPure(callee) {
						return false
					}
				default:
					// dynamic call (closure / interface method): purity of the actual callee is checked at run time
				}
			default:
				return false
			}
		}
	}
	return n <= 400
}

// tryPureCall executes fn(args) in merge mode. ok=false means the attempt was abandoned (no side effects happened).
func (it *Interp) tryPureCall(caller *frame, site ssa.Instruction, fn *ssa.Function, args, env []Value) (res Value, ok bool) {
	if it.cfg.noIfConv || it.tolerant {
		return nil, false
	}
	top := it.spec == 0
	if top {
		it.specSteps = 0
	}
	savedDepth, savedTop := it.depth, it.topFrame
	var savedGTop *frame
	if it.cur != nil {
		savedGTop = it.cur.top
	}
	it.spec++
	defer func() {
		it.spec--
		if r := recover(); r != nil {
			if _, isAbort := r.(specAbort); isAbort && top {
				it.depth, it.topFrame = savedDepth, savedTop
				if it.cur != nil {
					it.cur.top = savedGTop
				}
				res, ok = nil, false
				return
			}
			panic(r)
		}
	}()
	return it.callPure(caller, site, fn, args, env), true
}

func (it *Interp) callPure(caller *frame, site ssa.Instruction, fn *ssa.Function, args, env []Value) Value {
	name := fn.String()
	if o := fn.Origin(); o != nil {
		name = o.String()
	}
	if _, ok := it.stubs[name]; ok {
		panic(specAbort{"stub"})
	}
	if ext, ok := intrinsics[name]; ok && it.noIntr[name] == 0 {
		if !pureIntrinsics[name] {
			panic(specAbort{"impure intrinsic " + name})
		}
		fr := &frame{it: it, caller: caller, fn: fn, callInstr: site}
		fr.g = it.cur
		return ext(fr, args)
	}
	if !it.staticPure(fn) {
		panic(specAbort{"impure callee " + name})
	}
	if it.depth > 200 {
		panic(specAbort{"depth"})
	}
	it.depth++
	defer func() { it.depth-- }()
	it.funcsSeen[fn] = true
	fi := it.info(fn)
	fr := &frame{it: it, caller: caller, fn: fn, info: fi, callInstr: site}
	fr.g = it.cur
	fr.env = make([]Value, fi.n)
	fr.block = fn.Blocks[0]
	for i, p := range fn.Params {
		fr.set(p, args[i])
	}
	for i, fv := range fn.FreeVars {
		fr.set(fv, env[i])
	}
	it.pushFrame(fr)
	defer it.popFrame(fr)
	return it.runPure(fr)
}

// runPure runs fr from fr.block to a Return, merging both sides of symbolic branches.
func (it *Interp) runPure(fr *frame) Value {
	for {
		blk := fr.block
		fnp := fr.info.firstNonPhi[blk]
		if fnp > 0 {
			it.executePhis(fr, blk, fnp)
		}
		instrs := blk.Instrs
		for i := fnp; i < len(instrs); i++ {
			it.steps++
			it.specSteps++
			if it.specSteps > pureStepCap {
				panic(specAbort{"pure step cap"})
			}
			switch ins := instrs[i].(type) {
			case *ssa.If:
				cond, ok := fr.get(ins.Cond).(*Term)
				if !ok {
					panic(specAbort{"if on non-term"})
				}
				if cond.Op == OpConst {
					succ := 1
					if cond.Val != 0 {
						succ = 0
					}
					fr.prevBlock, fr.block = blk, blk.Succs[succ]
				} else {
					saved := append([]Value(nil), fr.env...)
					fr.prevBlock, fr.block = blk, blk.Succs[0]
					vT := it.runPure(fr)
					fr.env = saved
					fr.prevBlock, fr.block = blk, blk.Succs[1]
					vF := it.runPure(fr)
					v, ok := it.iteValue(cond, vT, vF)
					if !ok {
						panic(specAbort{"unmergeable results"})
					}
					return v
				}
			case *ssa.Jump:
				fr.prevBlock, fr.block = blk, blk.Succs[0]
			case *ssa.Return:
				switch len(ins.Results) {
				case 0:
					return nil
				case 1:
					return fr.get(ins.Results[0])
				}
				res := make(Tuple, len(ins.Results))
				for j, r := range ins.Results {
					res[j] = fr.get(r)
				}
				return res
			case *ssa.Call:
				fnv, args := it.prepareCall(fr, &ins.Call)
				switch f := fnv.(type) {
				case *ssa.Function:
					if f == nil {
						panic(specAbort{"nil func"})
					}
					fr.set(ins, it.callPure(fr, ins, f, args, nil))
				case *Closure:
					fr.set(ins, it.callPure(fr, ins, f.Fn, args, f.Env))
				case *ssa.Builtin:
					fr.set(ins, it.callBuiltin(fr, f, args, ins))
				default:
					panic(specAbort{"call of unsupported func value"})
				}
			case *ssa.Panic:
				panic(specAbort{"panic"})
			default:
				it.visitInstr(fr, ins)
			}
		}
	}
}
