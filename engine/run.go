package main

import (
	"fmt"
	"os/exec"
	"strings"
	"sync"
	"time"

	"golang.org/x/tools/go/ssa"
)

// runInit interprets the package initialisers (dependency order) in tolerant mode.
func (it *Interp) runInit(pkg *ssa.Package) {
	it.tolerant = true
	it.path = &PathState{labelsChecked: map[string]int{}}
	it.resetPathEnv()
	it.budget = 1 << 62
	defer func() {
		it.tolerant = false
		it.undo = nil
	}()
	initFn := pkg.Func("init")
	func() {
		defer func() {
			if r := recover(); r != nil {
				it.initFail = append(it.initFail, fmt.Sprintf("%s: %v", pkg.Pkg.Path(), r))
			}
		}()
		it.callSSA(nil, nil, initFn, nil, nil)
	}()
}

func (it *Interp) runHarness(fn *ssa.Function) {
	it.callSSA(nil, nil, fn, nil, nil)
}

var portfolioMu sync.Mutex

// portfolio runs the one-shot solvers in parallel on a script; first definite answer wins.
func portfolio(script string, timeout time.Duration) SatResult {
	type ans struct {
		r SatResult
	}
	ch := make(chan ans, 3)
	kinds := []string{"z3", "z3-new", "cvc5"}
	for _, k := range kinds {
		go func(k string) {
			r, _ := RunOneShot(k, script, timeout)
			ch <- ans{r}
		}(k)
	}
	res := Unknown
	for range kinds {
		a := <-ch
		if a.r != Unknown {
			res = a.r
			break
		}
	}
	return res
}

var _ = exec.Command
var _ = strings.TrimSpace
