package main

import (
	"fmt"
	"os/exec"
	"strings"
	"sync"
	"time"

	"golang.org/x/tools/go/ssa"
)

// runInit interprets the package initialisers (dependency order) in tolerant mode.
func (it *Interp) runInit(pkg *ssa.Package) {
	it.tolerant = true
	it.path = &PathState{labelsChecked: map[string]int{}}
	it.resetPathEnv()
	it.budget = 1 << 62
	defer func() {
		it.tolerant = false
		it.undo = nil
	}()
	initFn := pkg.Func("init")
	func() {
		defer func() {
			if r := recover(); r != nil {
				it.initFail = append(it.initFail, fmt.Sprintf("%s: %v", pkg.Pkg.Path(), r))
			}
		}()
		it.callSSA(nil, nil, initFn, nil, nil)
	}()
}

func (it *Interp) runHarness(fn *ssa.Function) {
	it.callSSA(nil, nil, fn, nil, nil)
}

var portfolioMu sync.Mutex

// portfolio runs the one-shot solvers in parallel on a script; first definite answer wins.
func portfolio(script string, timeout time.Duration) SatResult {
	type ans struct {
		r SatResult
	}
	ch := make(chan ans, 3)
	kinds := []string{"z3", "z3-new", "cvc5"}
	for _, k := range kinds {
		go func(k string) {
			r, _ := RunOneShot(k, script, timeout)
			ch <- ans{r}
		}(k)
	}
	res := Unknown
	for range kinds {
		a := <-ch
		if a.r != Unknown {
			res = a.r
			break
		}
	}
	return res
}



// portfolioModel decides the conjunction of ts with the one-shot solvers in parallel; on sat it
// also returns a model (from whichever solver answered).
func portfolioModel(ts []*Term, timeout time.Duration) (SatResult, Model) {
	vars := map[string]*Term{}
	seen := map[*Term]bool{}
	for _, t := range ts {
		collectVars(t, seen, vars)
	}
	script := Script(ts)
	if len(vars) > 0 {
		var sb strings.Builder
		sb.WriteString("(get-value (")
		for n := range vars {
			sb.WriteString(smtVarName(n) + " ")
		}
		sb.WriteString("))\n")
		script = "(set-option :produce-models true)\n" + script + sb.String()
	}
	type ans struct {
		r SatResult
		m Model
	}
	kinds := []string{"z3", "z3-new", "cvc5"}
	ch := make(chan ans, len(kinds))
	var cmds []*exec.Cmd
	var mu sync.Mutex
	for _, k := range kinds {
		go func(k string) {
			var argv []string
			sc := script
			switch k {
			case "z3":
				argv = []string{"z3", "-in", fmt.Sprintf("-T:%d", int(timeout.Seconds()))}
			case "z3-new":
				argv = []string{"z3-new", "-in", fmt.Sprintf("-T:%d", int(timeout.Seconds()))}
			default:
				argv = []string{"cvc5", "--lang=smt2", "--produce-models", fmt.Sprintf("--tlimit=%d", timeout.Milliseconds())}
				sc = "(set-logic QF_BV)\n" + strings.Replace(script, "(set-option :produce-models true)\n", "", 1)
			}
			cmd := exec.Command(argv[0], argv[1:]...)
			cmd.Stdin = strings.NewReader(sc)
			mu.Lock()
			cmds = append(cmds, cmd)
			mu.Unlock()
			out, _ := cmd.CombinedOutput()
			o := string(out)
			a := ans{r: Unknown}
			first := strings.TrimSpace(strings.SplitN(o, "\n", 2)[0])
			switch first {
			case "unsat":
				a.r = Unsat
			case "sat":
				a.r = Sat
				a.m = Model{}
				if i := strings.Index(o, "\n"); i >= 0 {
					parseModel(o[i+1:], a.m)
				}
			}
			if strings.Contains(o, "(error") && a.r != Unsat {
				a.r = Unknown
			}
			ch <- a
		}(k)
	}
	res := ans{r: Unknown}
	for range kinds {
		a := <-ch
		if a.r != Unknown {
			res = a
			break
		}
	}
	mu.Lock()
	for _, c := range cmds {
		if c.Process != nil {
			c.Process.Kill()
		}
	}
	mu.Unlock()
	return res.r, res.m
}
