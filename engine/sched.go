package main

// Goroutines, channels, sync primitives and virtual time.
//
// Every interpreted goroutine runs on its own Go goroutine, but only the holder of the baton
// runs. At each visible operation (channel op, select, lock, WaitGroup, atomic op, go, Sleep,
// goroutine exit) the scheduler takes a decision "who runs next"; the decision is part of the
// path's decision vector, so interleavings are explored by the same replay-forking machinery,
// under a preemption bound. Time is a virtual clock that advances only when every goroutine is
// blocked. Without verifrt.Concurrent the spawned goroutines are parked and never run.

import (
	"fmt"
	"go/types"
	"sort"

	"golang.org/x/tools/go/ssa"
)

type Goroutine struct {
	id      int
	top     *frame
	resume  chan struct{}
	done    bool
	waiting func() bool // nil = runnable
	killed  bool
	fn      Value
	args    []Value
	started bool
	exited  chan struct{}
}

type Scheduler struct {
	gs          []*Goroutine
	enabled     bool
	bound       int // preemption bound
	preemptions int
	timers      []*vtimer
	abort       interface{}
	nextID      int
}

type vtimer struct {
	when    int64
	period  int64
	fire    func()
	stopped bool
	seq     int
}

type sendRec struct {
	val   Value
	taken bool
}

type Chan struct {
	buf         []Value
	cap         int
	closed      bool
	sendq       []*sendRec
	recvWaiters int
}

type syncObj struct {
	locked  bool
	readers int
	count   int64
	val     Value
	gen     int64 // sync.Cond generation
	items   []Value // sync.Pool: objects put back and not yet handed out again
}

type fsNode struct{}

type killSignal struct{}

func (it *Interp) syncOf(p Value) *syncObj {
	pp, ok := p.(*Value)
	if !ok || pp == nil {
		panic(it.runtimePanic("nil", "nil pointer dereference (sync object)"))
	}
	if it.syncObjs == nil {
		it.syncObjs = map[*Value]*syncObj{}
	}
	o := it.syncObjs[pp]
	if o == nil {
		o = &syncObj{}
		it.syncObjs[pp] = o
	}
	return o
}

func (it *Interp) resetPathEnv() {
	it.syncObjs = nil
	it.uuidSeq = 0
	it.stubs = nil
	it.envSym = map[string]Str{}
	it.mapOrderAny = false
	it.cfg.hangIsViolation = false
	it.budget = it.cfg.budget
	it.vtime = 0
	it.noIntr = map[string]int{}
	it.tolerateUnsupported = false
	it.fsFiles = nil
	it.openFiles = nil
	it.uniqueTab = nil
	it.sched = &Scheduler{}
	it.cur = nil
	it.timerObjs = nil
}

// startMain registers the harness goroutine.
func (it *Interp) startMain() {
	g := &Goroutine{id: 0, resume: make(chan struct{}, 1), started: true}
	it.sched.gs = []*Goroutine{g}
	it.sched.nextID = 1
	it.cur = g
}

// endPath kills every goroutine that is still alive (the program exits when main returns).
func (it *Interp) endPath() {
	s := it.sched
	if s == nil {
		return
	}
	for _, g := range s.gs {
		if g.id == 0 || g.done || !g.started {
			continue
		}
		g.killed = true
		g.resume <- struct{}{}
		<-g.exited
	}
	it.cur = nil
}

func (it *Interp) runnable(g *Goroutine) bool {
	if g.done {
		return false
	}
	if !it.sched.enabled && g.id != 0 {
		return false // parked
	}
	return g.waiting == nil || g.waiting()
}

func (it *Interp) fireTimers() {
	s := it.sched
	for {
		fired := false
		for _, t := range s.timers {
			if !t.stopped && t.when <= it.vtime {
				if t.period > 0 {
					t.when += t.period
				} else {
					t.stopped = true
				}
				t.fire()
				fired = true
			}
		}
		if !fired {
			return
		}
	}
}

func (it *Interp) nextTimer() (int64, bool) {
	var best int64
	ok := false
	for _, t := range it.sched.timers {
		if !t.stopped && (!ok || t.when < best) {
			best, ok = t.when, true
		}
	}
	return best, ok
}

// schedule is called by the running goroutine at a visible operation. If blocked is true the
// caller has set cur.waiting and cannot continue until its predicate holds.
func (it *Interp) schedule(blocked bool) {
	s := it.sched
	cur := it.cur
	if cur == nil || it.tolerant {
		if blocked {
			it.deadlock("blocking operation during package initialisation")
		}
		return
	}
	if it.spec > 0 {
		panic(specAbort{"scheduling point"})
	}
	for {
		it.fireTimers()
		var cands []*Goroutine
		curRunnable := !cur.done && (cur.waiting == nil || cur.waiting())
		if curRunnable {
			cands = append(cands, cur)
		}
		for _, g := range s.gs {
			if g != cur && it.runnable(g) {
				cands = append(cands, g)
			}
		}
		if len(cands) == 0 {
			// everybody is blocked: let virtual time pass
			if when, ok := it.nextTimer(); ok {
				if when > it.vtime {
					it.vtime = when
				}
				continue
			}
			if cur.done {
				// the last runnable goroutine ended while main is blocked forever
				it.sched.abort = pathEnd{reason: "deadlock", detail: "a goroutine ended and all others are blocked"}
				main := s.gs[0]
				it.cur = main
				main.resume <- struct{}{}
				return
			}
			it.deadlock("all goroutines are blocked")
		}
		next := cands[0]
		if len(cands) > 1 && s.bound < 0 {
			// deterministic mode: no interleavings are explored; the running goroutine continues until
			// it blocks, then the runnable goroutine with the lowest id runs
			next = cands[0]
		} else if len(cands) > 1 {
			if curRunnable && s.preemptions >= s.bound {
				next = cur
			} else {
				k := it.choose('s', len(cands))
				next = cands[k]
				if curRunnable && next != cur {
					s.preemptions++
				}
			}
		}
		if next == cur {
			return
		}
		it.switchTo(next)
		if cur.done {
			return
		}
		if cur.waiting == nil || cur.waiting() {
			return
		}
	}
}

// switchTo hands the baton to g and parks the caller (unless it is done).
func (it *Interp) switchTo(g *Goroutine) {
	cur := it.cur
	it.cur = g
	if !g.started {
		g.started = true
		go it.goroutineBody(g)
	} else {
		g.resume <- struct{}{}
	}
	if cur.done {
		return
	}
	<-cur.resume
	it.cur = cur
	if cur.killed {
		panic(killSignal{})
	}
	if cur.id == 0 && it.sched.abort != nil {
		r := it.sched.abort
		it.sched.abort = nil
		panic(r)
	}
}

func (it *Interp) goroutineBody(g *Goroutine) {
	defer close(g.exited)
	defer func() {
		r := recover()
		g.done = true
		if _, ok := r.(killSignal); ok || g.killed {
			return
		}
		if r != nil {
			// an uncaught panic (or an engine signal) in a goroutine ends the path: hand it to main
			it.sched.abort = r
			main := it.sched.gs[0]
			it.cur = main
			main.resume <- struct{}{}
			return
		}
		// normal exit: pass the baton on
		defer func() {
			if r2 := recover(); r2 != nil {
				it.sched.abort = r2
				main := it.sched.gs[0]
				it.cur = main
				main.resume <- struct{}{}
			}
		}()
		it.schedule(false)
	}()
	it.call(nil, nil, g.fn, g.args)
}

func (it *Interp) yield(fr *frame) {
	if it.cur != nil && it.sched != nil && it.sched.enabled && !it.tolerant && it.spec == 0 {
		it.schedule(false)
	}
}

func (it *Interp) blockUntil(pred func() bool) {
	if pred() {
		return
	}
	if it.cur == nil || it.tolerant {
		it.deadlock("blocking operation outside a path")
	}
	cur := it.cur
	cur.waiting = pred
	it.schedule(true)
	cur.waiting = nil
}

func (it *Interp) deadlock(what string) {
	panic(pathEnd{reason: "deadlock", detail: what})
}

func (it *Interp) goStmt(fr *frame, fn Value, args []Value) {
	if it.tolerant {
		return // goroutines started by package initialisers are not run
	}
	if it.spec > 0 {
		panic(specAbort{"go"})
	}
	s := it.sched
	g := &Goroutine{id: s.nextID, resume: make(chan struct{}, 1), fn: fn, args: args, exited: make(chan struct{})}
	s.nextID++
	s.gs = append(s.gs, g)
	it.stats.goroutines++
	it.yield(fr)
}

func (it *Interp) newChan(n int) *Chan { return &Chan{cap: n} }

func (it *Interp) chanSend(fr *frame, ch Value, v Value) {
	c, _ := ch.(*Chan)
	it.yield(fr)
	if c == nil {
		it.blockUntil(func() bool { return false })
	}
	if c.closed {
		panic(it.runtimePanic("closed", "send on closed channel"))
	}
	if len(c.buf) < c.cap {
		it.chanPush(c, copyVal(v))
		return
	}
	rec := &sendRec{val: copyVal(v)}
	c.sendq = append(c.sendq, rec)
	it.logUndo(func() { c.sendq = nil })
	it.blockUntil(func() bool { return rec.taken || c.closed })
	if !rec.taken {
		panic(it.runtimePanic("closed", "send on closed channel"))
	}
}

func (it *Interp) chanPush(c *Chan, v Value) {
	old := c.buf
	it.logUndo(func() { c.buf = old })
	c.buf = append(append([]Value{}, c.buf...), v)
}

// chanTryRecv takes a value if one is available: (value, ok, ready).
func (it *Interp) chanTryRecv(c *Chan) (Value, bool, bool) {
	if len(c.buf) > 0 {
		v := c.buf[0]
		old := c.buf
		it.logUndo(func() { c.buf = old })
		c.buf = append([]Value{}, c.buf[1:]...)
		// a sender blocked on a full buffer can now deposit its value
		if len(c.sendq) > 0 {
			rec := c.sendq[0]
			c.sendq = c.sendq[1:]
			rec.taken = true
			c.buf = append(c.buf, rec.val)
		}
		return v, true, true
	}
	if len(c.sendq) > 0 {
		rec := c.sendq[0]
		c.sendq = c.sendq[1:]
		rec.taken = true
		return rec.val, true, true
	}
	if c.closed {
		return nil, false, true
	}
	return nil, false, false
}

func (it *Interp) chanRecv(fr *frame, ch Value, commaOk bool, t types.Type) Value {
	c, _ := ch.(*Chan)
	it.yield(fr)
	if c == nil {
		it.blockUntil(func() bool { return false })
	}
	var v Value
	var ok bool
	for {
		var ready bool
		v, ok, ready = it.chanTryRecv(c)
		if ready {
			break
		}
		c.recvWaiters++
		it.blockUntil(func() bool { return len(c.buf) > 0 || len(c.sendq) > 0 || c.closed })
		c.recvWaiters--
	}
	if !ok {
		if commaOk {
			return Tuple{it.zero(t.(*types.Tuple).At(0).Type()), it.tt.fls}
		}
		return it.zero(t)
	}
	if commaOk {
		return Tuple{v, it.tt.tru}
	}
	return v
}

func (it *Interp) chanClose(fr *frame, ch Value) {
	c, _ := ch.(*Chan)
	if c == nil {
		panic(it.runtimePanic("closed", "close of nil channel"))
	}
	if c.closed {
		panic(it.runtimePanic("closed", "close of closed channel"))
	}
	it.logUndo(func() { c.closed = false })
	c.closed = true
	it.yield(fr)
}

func (it *Interp) selectStmt(fr *frame, instr *ssa.Select) Value {
	mk := func(chosen int, recvOk bool, recvIdx int, recv Value) Value {
		r := Tuple{it.mkInt(chosen), it.tt.Bool(recvOk)}
		for i, st := range instr.States {
			if st.Dir == types.RecvOnly {
				if i == recvIdx && recv != nil {
					r = append(r, recv)
				} else {
					r = append(r, it.zero(st.Chan.Type().Underlying().(*types.Chan).Elem()))
				}
			}
		}
		return r
	}
	chans := make([]*Chan, len(instr.States))
	for i, st := range instr.States {
		chans[i], _ = fr.get(st.Chan).(*Chan)
	}
	ready := func() []int {
		var r []int
		for i, st := range instr.States {
			c := chans[i]
			if c == nil {
				continue
			}
			if st.Dir == types.RecvOnly {
				if len(c.buf) > 0 || len(c.sendq) > 0 || c.closed {
					r = append(r, i)
				}
			} else if c.closed || len(c.buf) < c.cap || (c.cap == 0 && c.recvWaiters > 0) {
				r = append(r, i)
			}
		}
		return r
	}
	it.yield(fr)
	for {
		rs := ready()
		if len(rs) == 0 {
			if !instr.Blocking {
				return mk(-1, false, -1, nil)
			}
			for i, st := range instr.States {
				if st.Dir == types.RecvOnly && chans[i] != nil {
					chans[i].recvWaiters++
				}
			}
			it.blockUntil(func() bool { return len(ready()) > 0 })
			for i, st := range instr.States {
				if st.Dir == types.RecvOnly && chans[i] != nil {
					chans[i].recvWaiters--
				}
			}
			continue
		}
		k := rs[0]
		if len(rs) > 1 && it.sched.bound >= 0 {
			k = rs[it.choose('s', len(rs))]
		}
		st := instr.States[k]
		c := chans[k]
		if st.Dir == types.RecvOnly {
			v, ok, got := it.chanTryRecv(c)
			if !got {
				continue
			}
			if !ok {
				return mk(k, false, -1, nil)
			}
			return mk(k, true, k, v)
		}
		if c.closed {
			panic(it.runtimePanic("closed", "send on closed channel"))
		}
		val := copyVal(fr.get(st.Send))
		if len(c.buf) < c.cap {
			it.chanPush(c, val)
		} else {
			// a receiver is waiting: leave the value for it
			c.sendq = append(c.sendq, &sendRec{val: val})
		}
		return mk(k, false, -1, nil)
	}
}

func (it *Interp) permute(ents []*mapEntry) []*mapEntry {
	rest := append([]*mapEntry{}, ents...)
	var out []*mapEntry
	for len(rest) > 1 {
		k := it.choose('k', len(rest))
		out = append(out, rest[k])
		rest = append(rest[:k:k], rest[k+1:]...)
	}
	return append(out, rest...)
}

func sortEntries(ents []*mapEntry) []*mapEntry { return ents }

// ---- timers ----

func (it *Interp) addTimer(d, period int64, fire func()) *vtimer {
	if d < 0 {
		d = 0
	}
	t := &vtimer{when: it.vtime + d, period: period, fire: fire, seq: len(it.sched.timers)}
	it.sched.timers = append(it.sched.timers, t)
	sort.SliceStable(it.sched.timers, func(i, j int) bool { return it.sched.timers[i].when < it.sched.timers[j].when })
	return t
}

func (it *Interp) timeValue() Value {
	// a time.Time for "now" on the virtual clock: built by the real time.Now over the time.now intrinsic
	return it.call(it.curFrame(), nil, it.funcByName("time.Now"), nil)
}

func (it *Interp) timerStruct(typeName string, c *Chan) *Value {
	pkg := it.prog.ImportedPackage("time")
	tt := pkg.Type(typeName).Type()
	st := it.zero(tt).(Struct)
	st[0] = c // field C
	var cell Value = st
	return &cell
}

func durArg(it *Interp, v Value) int64 {
	d, ok := concInt(v)
	if !ok {
		panic(engineErr("symbolic duration reaches a timer"))
	}
	return d
}

func init() {
	// ---- concurrency control from the harness ----
	reg(rtPkg+"Concurrent", func(fr *frame, args []Value) Value {
		it := fr.it
		it.sched.enabled = true
		it.sched.bound = argInt(args[0])
		// (bound < 0: one deterministic schedule -- such paths are still validated natively)
		it.path.concurrent = it.sched.bound >= 0
		return nil
	})
	reg(rtPkg+"Yield", func(fr *frame, args []Value) Value { fr.it.yield(fr); return nil })
	// DrainGoroutines lets every goroutine started so far run until it blocks or ends (the caller
	// waits meanwhile); scheduling among them is explored, the caller is not preempted afterwards.
	reg(rtPkg+"DrainGoroutines", func(fr *frame, args []Value) Value {
		it := fr.it
		if it.cur == nil {
			return nil
		}
		was := it.sched.enabled
		it.sched.enabled = true
		me := it.cur
		it.blockUntil(func() bool {
			for _, g := range it.sched.gs {
				if g != me && !g.done && (g.waiting == nil || g.waiting()) {
					return false
				}
			}
			return true
		})
		it.sched.enabled = was
		return nil
	})
	reg(rtPkg+"AdvanceTime", func(fr *frame, args []Value) Value {
		it := fr.it
		d := durArg(it, args[0])
		target := it.vtime + d
		drain := func() {
			if it.cur == nil || !it.sched.enabled {
				return
			}
			me := it.cur
			it.blockUntil(func() bool {
				for _, g := range it.sched.gs {
					if g != me && !g.done && (g.waiting == nil || g.waiting()) {
						return false
					}
				}
				return true
			})
		}
		// every timer up to the target fires in order; after each, the goroutines it woke run until they block
		for {
			when, ok := it.nextTimer()
			if !ok || when > target {
				break
			}
			if when > it.vtime {
				it.vtime = when
			}
			it.fireTimers()
			drain()
		}
		it.vtime = target
		drain()
		return nil
	})
	reg("runtime.Goexit", func(fr *frame, args []Value) Value { panic(killSignal{}) })

	// ---- sync ----
	reg("(*sync.Mutex).Lock", func(fr *frame, args []Value) Value {
		it := fr.it
		o := it.syncOf(args[0])
		it.yield(fr)
		it.blockUntil(func() bool { return !o.locked })
		o.locked = true
		return nil
	})
	reg("(*sync.Mutex).TryLock", func(fr *frame, args []Value) Value {
		o := fr.it.syncOf(args[0])
		if o.locked {
			return fr.it.tt.fls
		}
		o.locked = true
		return fr.it.tt.tru
	})
	reg("(*sync.Mutex).Unlock", func(fr *frame, args []Value) Value {
		o := fr.it.syncOf(args[0])
		if !o.locked {
			panic(fr.it.runtimePanic("fatal", "fatal error: sync: unlock of unlocked mutex"))
		}
		o.locked = false
		fr.it.yield(fr)
		return nil
	})
	reg("(*sync.RWMutex).Lock", func(fr *frame, args []Value) Value {
		it := fr.it
		o := it.syncOf(args[0])
		it.yield(fr)
		it.blockUntil(func() bool { return !o.locked && o.readers == 0 })
		o.locked = true
		return nil
	})
	reg("(*sync.RWMutex).Unlock", func(fr *frame, args []Value) Value {
		o := fr.it.syncOf(args[0])
		if !o.locked {
			panic(fr.it.runtimePanic("fatal", "fatal error: sync: Unlock of unlocked RWMutex"))
		}
		o.locked = false
		fr.it.yield(fr)
		return nil
	})
	reg("(*sync.RWMutex).RLock", func(fr *frame, args []Value) Value {
		it := fr.it
		o := it.syncOf(args[0])
		it.yield(fr)
		it.blockUntil(func() bool { return !o.locked })
		o.readers++
		return nil
	})
	reg("(*sync.RWMutex).RUnlock", func(fr *frame, args []Value) Value {
		o := fr.it.syncOf(args[0])
		if o.readers <= 0 {
			panic(fr.it.runtimePanic("fatal", "fatal error: sync: RUnlock of unlocked RWMutex"))
		}
		o.readers--
		fr.it.yield(fr)
		return nil
	})
	wgPanic := func(it *Interp) *targetPanic {
		return it.explicitPanic(Iface{t: types.Typ[types.String], v: it.mkStr("sync: negative WaitGroup counter")})
	}
	reg("(*sync.WaitGroup).Add", func(fr *frame, args []Value) Value {
		o := fr.it.syncOf(args[0])
		o.count += int64(argInt(args[1]))
		if o.count < 0 {
			panic(wgPanic(fr.it))
		}
		fr.it.yield(fr)
		return nil
	})
	reg("(*sync.WaitGroup).Done", func(fr *frame, args []Value) Value {
		o := fr.it.syncOf(args[0])
		o.count--
		if o.count < 0 {
			panic(wgPanic(fr.it))
		}
		fr.it.yield(fr)
		return nil
	})
	reg("(*sync.WaitGroup).Wait", func(fr *frame, args []Value) Value {
		it := fr.it
		o := it.syncOf(args[0])
		it.yield(fr)
		it.blockUntil(func() bool { return o.count <= 0 })
		return nil
	})
	reg("(*sync.Cond).Wait", func(fr *frame, args []Value) Value {
		it := fr.it
		o := it.syncOf(args[0])
		l := *it.structFieldPtr(args[0], "sync", "Cond", "L")
		it.invokeMethod(fr, l, "Unlock")
		gen := o.gen
		it.blockUntil(func() bool { return o.gen != gen })
		it.invokeMethod(fr, l, "Lock")
		return nil
	})
	reg("(*sync.Cond).Signal", func(fr *frame, args []Value) Value { fr.it.syncOf(args[0]).gen++; fr.it.yield(fr); return nil })
	reg("(*sync.Cond).Broadcast", func(fr *frame, args []Value) Value { fr.it.syncOf(args[0]).gen++; fr.it.yield(fr); return nil })
	// sync.Pool hands an object that was put back to the next Get (most recent first): the reuse
	// pattern that makes use-after-Put and missing-reset mistakes visible; New is used when empty.
	reg("(*sync.Pool).Get", func(fr *frame, args []Value) Value {
		p := args[0].(*Value)
		if o := fr.it.syncOf(args[0]); len(o.items) > 0 {
			x := o.items[len(o.items)-1]
			o.items = o.items[:len(o.items)-1]
			return x
		}
		st := (*p).(Struct)
		newFn := st[len(st)-1]
		if n, _ := isNilValue(newFn); n {
			return Iface{}
		}
		return fr.it.call(fr, nil, newFn, nil)
	})
	reg("(*sync.Pool).Put", func(fr *frame, args []Value) Value {
		if ifc, ok := args[1].(Iface); ok {
			if n, _ := isNilValue(ifc); n {
				return nil
			}
		}
		o := fr.it.syncOf(args[0])
		o.items = append(o.items, args[1])
		return nil
	})

	// ---- sync/atomic ----
	for _, ty := range []string{"Int32", "Int64", "Uint32", "Uint64", "Uintptr", "Pointer"} {
		ty := ty
		reg("sync/atomic.Load"+ty, func(fr *frame, args []Value) Value {
			fr.it.yield(fr)
			return fr.it.loadPtr(args[0])
		})
		reg("sync/atomic.Store"+ty, func(fr *frame, args []Value) Value {
			fr.it.yield(fr)
			fr.it.storePtr(args[0], args[1])
			return nil
		})
		reg("sync/atomic.Swap"+ty, func(fr *frame, args []Value) Value {
			fr.it.yield(fr)
			old := fr.it.loadPtr(args[0])
			fr.it.storePtr(args[0], args[1])
			return old
		})
		reg("sync/atomic.CompareAndSwap"+ty, func(fr *frame, args []Value) Value {
			it := fr.it
			it.yield(fr)
			cur := it.loadPtr(args[0])
			eq := it.equals(cur, args[1])
			if it.branch(eq) {
				it.storePtr(args[0], args[2])
				return it.tt.tru
			}
			return it.tt.fls
		})
		if ty != "Pointer" {
			reg("sync/atomic.Add"+ty, func(fr *frame, args []Value) Value {
				it := fr.it
				it.yield(fr)
				cur := it.loadPtr(args[0]).(*Term)
				nv := it.tt.Add(cur, args[1].(*Term))
				it.storePtr(args[0], nv)
				return nv
			})
			reg("sync/atomic.And"+ty, func(fr *frame, args []Value) Value {
				it := fr.it
				cur := it.loadPtr(args[0]).(*Term)
				it.storePtr(args[0], it.tt.BAnd(cur, args[1].(*Term)))
				return cur
			})
			reg("sync/atomic.Or"+ty, func(fr *frame, args []Value) Value {
				it := fr.it
				cur := it.loadPtr(args[0]).(*Term)
				it.storePtr(args[0], it.tt.BOr(cur, args[1].(*Term)))
				return cur
			})
		}
	}
	reg("(*sync/atomic.Value).Load", func(fr *frame, args []Value) Value {
		o := fr.it.syncOf(args[0])
		if o.val == nil {
			return Iface{}
		}
		return o.val
	})
	reg("(*sync/atomic.Value).Store", func(fr *frame, args []Value) Value {
		o := fr.it.syncOf(args[0])
		o.val = args[1]
		return nil
	})
	reg("(*sync/atomic.Value).Swap", func(fr *frame, args []Value) Value {
		o := fr.it.syncOf(args[0])
		old := o.val
		o.val = args[1]
		if old == nil {
			return Iface{}
		}
		return old
	})
	reg("(*sync/atomic.Value).CompareAndSwap", func(fr *frame, args []Value) Value {
		it := fr.it
		o := it.syncOf(args[0])
		var cur Value = Iface{}
		if o.val != nil {
			cur = o.val
		}
		if eq := it.equals(cur, args[1]); eq.Op == OpConst && eq.Val != 0 {
			o.val = args[2]
			return it.tt.tru
		}
		return it.tt.fls
	})

	// ---- time ----
	reg("time.now", func(fr *frame, args []Value) Value {
		it := fr.it
		ns := it.vtime
		return Tuple{it.tt.Const(64, uint64(1_700_000_000+ns/1_000_000_000)), it.tt.Const(32, uint64(ns%1_000_000_000)), it.tt.Const(64, uint64(1_000_000+ns))}
	})
	reg("time.runtimeNano", func(fr *frame, args []Value) Value {
		return fr.it.tt.Const(64, uint64(1_000_000+fr.it.vtime))
	})
	reg("time.Sleep", func(fr *frame, args []Value) Value {
		it := fr.it
		d := durArg(it, args[0])
		if d <= 0 {
			it.yield(fr)
			return nil
		}
		if it.cur == nil || it.tolerant {
			it.vtime += d
			return nil
		}
		woken := false
		it.addTimer(d, 0, func() { woken = true })
		it.blockUntil(func() bool { return woken })
		return nil
	})
	newTimer := func(fr *frame, d int64, period int64, typeName string) Value {
		it := fr.it
		c := it.newChan(1)
		p := it.timerStruct(typeName, c)
		t := it.addTimer(d, period, func() {
			if len(c.buf) < c.cap {
				c.buf = append(c.buf, it.timeValue())
			}
		})
		if it.timerObjs == nil {
			it.timerObjs = map[*Value]*vtimer{}
		}
		it.timerObjs[p] = t
		return p
	}
	reg("time.NewTimer", func(fr *frame, args []Value) Value {
		return newTimer(fr, durArg(fr.it, args[0]), 0, "Timer")
	})
	reg("time.After", func(fr *frame, args []Value) Value {
		p := newTimer(fr, durArg(fr.it, args[0]), 0, "Timer").(*Value)
		return (*p).(Struct)[0]
	})
	reg("time.NewTicker", func(fr *frame, args []Value) Value {
		d := durArg(fr.it, args[0])
		if d <= 0 {
			panic(fr.it.explicitPanic(Iface{t: types.Typ[types.String], v: fr.it.mkStr("non-positive interval for NewTicker")}))
		}
		return newTimer(fr, d, d, "Ticker")
	})
	reg("time.Tick", func(fr *frame, args []Value) Value {
		d := durArg(fr.it, args[0])
		if d <= 0 {
			return (*Chan)(nil)
		}
		p := newTimer(fr, d, d, "Ticker").(*Value)
		return (*p).(Struct)[0]
	})
	reg("time.AfterFunc", func(fr *frame, args []Value) Value {
		it := fr.it
		f := args[1]
		p := it.timerStruct("Timer", nil)
		t := it.addTimer(durArg(it, args[0]), 0, func() {
			s := it.sched
			g := &Goroutine{id: s.nextID, resume: make(chan struct{}, 1), fn: f, exited: make(chan struct{})}
			s.nextID++
			s.gs = append(s.gs, g)
		})
		if it.timerObjs == nil {
			it.timerObjs = map[*Value]*vtimer{}
		}
		it.timerObjs[p] = t
		return p
	})
	stop := func(fr *frame, args []Value) Value {
		it := fr.it
		p, _ := args[0].(*Value)
		t := it.timerObjs[p]
		if t == nil {
			return it.tt.fls
		}
		was := !t.stopped
		t.stopped = true
		return it.tt.Bool(was)
	}
	reg("(*time.Timer).Stop", stop)
	reg("(*time.Ticker).Stop", func(fr *frame, args []Value) Value { stop(fr, args); return nil })
	reset := func(fr *frame, args []Value) Value {
		it := fr.it
		p, _ := args[0].(*Value)
		t := it.timerObjs[p]
		if t == nil {
			return it.tt.fls
		}
		was := !t.stopped
		d := durArg(it, args[1])
		t.stopped = false
		t.when = it.vtime + d
		if t.period > 0 {
			t.period = d
		}
		return it.tt.Bool(was)
	}
	reg("(*time.Timer).Reset", reset)
	reg("(*time.Ticker).Reset", func(fr *frame, args []Value) Value { reset(fr, args); return nil })
}

var _ = fmt.Sprint
