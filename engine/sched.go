package main

// Goroutines, channels, sync primitives and virtual time.
// Stage 1: sequential semantics (single goroutine); blocking forever = deadlock.

import (
	"go/types"

	"golang.org/x/tools/go/ssa"
)

type Goroutine struct {
	id  int
	top *frame
}

type Scheduler struct{}

type Chan struct {
	buf    []Value
	cap    int
	closed bool
}

type syncObj struct {
	locked  bool
	readers int
	count   int64
	val     Value
}

type fsNode struct{}

func (it *Interp) syncOf(p Value) *syncObj {
	pp, ok := p.(*Value)
	if !ok || pp == nil {
		panic(it.runtimePanic("nil", "nil pointer dereference (sync object)"))
	}
	if it.syncObjs == nil {
		it.syncObjs = map[*Value]*syncObj{}
	}
	o := it.syncObjs[pp]
	if o == nil {
		o = &syncObj{}
		it.syncObjs[pp] = o
	}
	return o
}

func (it *Interp) resetPathEnv() {
	it.syncObjs = nil
	it.stubs = nil
	it.envSym = map[string]Str{}
	it.mapOrderAny = false
	it.cfg.hangIsViolation = false
	it.budget = it.cfg.budget
	it.vtime = 0
	it.noIntr = map[string]int{}
	it.fsFiles = nil
	it.openFiles = nil
}

func (it *Interp) yield(fr *frame) {}

func (it *Interp) deadlock(what string) {
	panic(pathEnd{reason: "deadlock", detail: what})
}

func (it *Interp) goStmt(fr *frame, fn Value, args []Value) {
	if it.tolerant {
		return // goroutines started by package initialisers are not run
	}
	it.pendingGo = append(it.pendingGo, pendingGo{fn, args})
	panic(engineErr("goroutines not supported yet (go %v)", valString(fn)))
}

type pendingGo struct {
	fn   Value
	args []Value
}

func (it *Interp) newChan(n int) *Chan { return &Chan{cap: n} }

func (it *Interp) chanSend(fr *frame, ch Value, v Value) {
	c, _ := ch.(*Chan)
	if c == nil {
		it.deadlock("send on nil channel")
	}
	if c.closed {
		panic(it.runtimePanic("closed", "send on closed channel"))
	}
	if len(c.buf) < c.cap {
		old := c.buf
		it.logUndo(func() { c.buf = old })
		c.buf = append(append([]Value{}, c.buf...), copyVal(v))
		return
	}
	it.deadlock("send would block forever")
}

func (it *Interp) chanRecv(fr *frame, ch Value, commaOk bool, t types.Type) Value {
	c, _ := ch.(*Chan)
	if c == nil {
		it.deadlock("receive from nil channel")
	}
	if len(c.buf) > 0 {
		v := c.buf[0]
		old := c.buf
		it.logUndo(func() { c.buf = old })
		c.buf = c.buf[1:]
		if commaOk {
			return Tuple{v, it.tt.tru}
		}
		return v
	}
	if c.closed {
		var z Value
		if commaOk {
			z = it.zero(t.(*types.Tuple).At(0).Type())
			return Tuple{z, it.tt.fls}
		}
		return it.zero(t)
	}
	it.deadlock("receive would block forever")
	return nil
}

func (it *Interp) chanClose(fr *frame, ch Value) {
	c, _ := ch.(*Chan)
	if c == nil {
		panic(it.runtimePanic("closed", "close of nil channel"))
	}
	if c.closed {
		panic(it.runtimePanic("closed", "close of closed channel"))
	}
	it.logUndo(func() { c.closed = false })
	c.closed = true
}

func (it *Interp) selectStmt(fr *frame, instr *ssa.Select) Value {
	// sequential semantics: first ready case in order; default; else deadlock
	mk := func(chosen int, recvOk bool, recvIdx int, recv Value) Value {
		r := Tuple{it.mkInt(chosen), it.tt.Bool(recvOk)}
		for i, st := range instr.States {
			if st.Dir == types.RecvOnly {
				if i == recvIdx && recv != nil {
					r = append(r, recv)
				} else {
					r = append(r, it.zero(st.Chan.Type().Underlying().(*types.Chan).Elem()))
				}
			}
		}
		return r
	}
	for i, st := range instr.States {
		c, _ := fr.get(st.Chan).(*Chan)
		if c == nil {
			continue
		}
		if st.Dir == types.RecvOnly {
			if len(c.buf) > 0 {
				v := c.buf[0]
				old := c.buf
				it.logUndo(func() { c.buf = old })
				c.buf = c.buf[1:]
				return mk(i, true, i, v)
			}
			if c.closed {
				return mk(i, false, -1, nil)
			}
		} else {
			if c.closed {
				panic(it.runtimePanic("closed", "send on closed channel"))
			}
			if len(c.buf) < c.cap {
				old := c.buf
				it.logUndo(func() { c.buf = old })
				c.buf = append(append([]Value{}, c.buf...), copyVal(fr.get(st.Send)))
				return mk(i, false, -1, nil)
			}
		}
	}
	if !instr.Blocking {
		return mk(-1, false, -1, nil)
	}
	it.deadlock("select would block forever")
	return nil
}

func (it *Interp) permute(ents []*mapEntry) []*mapEntry {
	// fork over permutations by successive choices
	rest := append([]*mapEntry{}, ents...)
	var out []*mapEntry
	for len(rest) > 1 {
		k := it.choose('k', len(rest))
		out = append(out, rest[k])
		rest = append(rest[:k:k], rest[k+1:]...)
	}
	return append(out, rest...)
}

func sortEntries(ents []*mapEntry) []*mapEntry { return ents }

func init() {
	// ---- sync ----
	reg("(*sync.Mutex).Lock", func(fr *frame, args []Value) Value {
		o := fr.it.syncOf(args[0])
		if o.locked {
			fr.it.deadlock("sync.Mutex.Lock on a mutex that is already held and never released")
		}
		fr.it.logUndo(func() { o.locked = false })
		o.locked = true
		return nil
	})
	reg("(*sync.Mutex).TryLock", func(fr *frame, args []Value) Value {
		o := fr.it.syncOf(args[0])
		if o.locked {
			return fr.it.tt.fls
		}
		o.locked = true
		return fr.it.tt.tru
	})
	reg("(*sync.Mutex).Unlock", func(fr *frame, args []Value) Value {
		o := fr.it.syncOf(args[0])
		if !o.locked {
			panic(fr.it.runtimePanic("fatal", "fatal error: sync: unlock of unlocked mutex"))
		}
		o.locked = false
		return nil
	})
	reg("(*sync.RWMutex).Lock", func(fr *frame, args []Value) Value {
		o := fr.it.syncOf(args[0])
		if o.locked || o.readers > 0 {
			fr.it.deadlock("sync.RWMutex.Lock on a held mutex")
		}
		o.locked = true
		return nil
	})
	reg("(*sync.RWMutex).Unlock", func(fr *frame, args []Value) Value {
		o := fr.it.syncOf(args[0])
		if !o.locked {
			panic(fr.it.runtimePanic("fatal", "fatal error: sync: Unlock of unlocked RWMutex"))
		}
		o.locked = false
		return nil
	})
	reg("(*sync.RWMutex).RLock", func(fr *frame, args []Value) Value {
		o := fr.it.syncOf(args[0])
		if o.locked {
			fr.it.deadlock("sync.RWMutex.RLock on a write-held mutex")
		}
		o.readers++
		return nil
	})
	reg("(*sync.RWMutex).RUnlock", func(fr *frame, args []Value) Value {
		o := fr.it.syncOf(args[0])
		if o.readers <= 0 {
			panic(fr.it.runtimePanic("fatal", "fatal error: sync: RUnlock of unlocked RWMutex"))
		}
		o.readers--
		return nil
	})
	reg("(*sync.WaitGroup).Add", func(fr *frame, args []Value) Value {
		o := fr.it.syncOf(args[0])
		o.count += int64(argInt(args[1]))
		if o.count < 0 {
			panic(fr.it.explicitPanic(Iface{t: types.Typ[types.String], v: fr.it.mkStr("sync: negative WaitGroup counter")}))
		}
		return nil
	})
	reg("(*sync.WaitGroup).Done", func(fr *frame, args []Value) Value {
		o := fr.it.syncOf(args[0])
		o.count--
		if o.count < 0 {
			panic(fr.it.explicitPanic(Iface{t: types.Typ[types.String], v: fr.it.mkStr("sync: negative WaitGroup counter")}))
		}
		return nil
	})
	reg("(*sync.WaitGroup).Wait", func(fr *frame, args []Value) Value {
		o := fr.it.syncOf(args[0])
		if o.count > 0 {
			fr.it.deadlock("WaitGroup.Wait with positive counter and no other goroutine")
		}
		return nil
	})
	reg("(*sync.Pool).Get", func(fr *frame, args []Value) Value {
		p := args[0].(*Value)
		st := (*p).(Struct)
		newFn := st[len(st)-1]
		if n, _ := isNilValue(newFn); n {
			return Iface{}
		}
		return fr.it.call(fr, nil, newFn, nil)
	})
	reg("(*sync.Pool).Put", func(fr *frame, args []Value) Value { return nil })

	// ---- sync/atomic ----
	for _, ty := range []string{"Int32", "Int64", "Uint32", "Uint64", "Uintptr", "Pointer"} {
		ty := ty
		reg("sync/atomic.Load"+ty, func(fr *frame, args []Value) Value {
			fr.it.yield(fr)
			return fr.it.loadPtr(args[0])
		})
		reg("sync/atomic.Store"+ty, func(fr *frame, args []Value) Value {
			fr.it.yield(fr)
			fr.it.storePtr(args[0], args[1])
			return nil
		})
		reg("sync/atomic.Swap"+ty, func(fr *frame, args []Value) Value {
			fr.it.yield(fr)
			old := fr.it.loadPtr(args[0])
			fr.it.storePtr(args[0], args[1])
			return old
		})
		reg("sync/atomic.CompareAndSwap"+ty, func(fr *frame, args []Value) Value {
			it := fr.it
			it.yield(fr)
			cur := it.loadPtr(args[0])
			eq := it.equals(cur, args[1])
			if it.branch(eq) {
				it.storePtr(args[0], args[2])
				return it.tt.tru
			}
			return it.tt.fls
		})
		if ty != "Pointer" {
			reg("sync/atomic.Add"+ty, func(fr *frame, args []Value) Value {
				it := fr.it
				it.yield(fr)
				cur := it.loadPtr(args[0]).(*Term)
				nv := it.tt.Add(cur, args[1].(*Term))
				it.storePtr(args[0], nv)
				return nv
			})
			reg("sync/atomic.And"+ty, func(fr *frame, args []Value) Value {
				it := fr.it
				cur := it.loadPtr(args[0]).(*Term)
				it.storePtr(args[0], it.tt.BAnd(cur, args[1].(*Term)))
				return cur
			})
			reg("sync/atomic.Or"+ty, func(fr *frame, args []Value) Value {
				it := fr.it
				cur := it.loadPtr(args[0]).(*Term)
				it.storePtr(args[0], it.tt.BOr(cur, args[1].(*Term)))
				return cur
			})
		}
	}
	reg("(*sync/atomic.Value).Load", func(fr *frame, args []Value) Value {
		o := fr.it.syncOf(args[0])
		if o.val == nil {
			return Iface{}
		}
		return o.val
	})
	reg("(*sync/atomic.Value).Store", func(fr *frame, args []Value) Value {
		o := fr.it.syncOf(args[0])
		o.val = args[1]
		return nil
	})
	reg("(*sync/atomic.Value).Swap", func(fr *frame, args []Value) Value {
		o := fr.it.syncOf(args[0])
		old := o.val
		o.val = args[1]
		if old == nil {
			return Iface{}
		}
		return old
	})

	// ---- time ----
	reg("time.now", func(fr *frame, args []Value) Value {
		it := fr.it
		ns := it.vtime
		return Tuple{it.tt.Const(64, uint64(1_700_000_000+ns/1_000_000_000)), it.tt.Const(32, uint64(ns%1_000_000_000)), it.tt.Const(64, uint64(1_000_000+ns))}
	})
	reg("time.runtimeNano", func(fr *frame, args []Value) Value {
		return fr.it.tt.Const(64, uint64(1_000_000+fr.it.vtime))
	})
	reg("time.Sleep", func(fr *frame, args []Value) Value {
		d, ok := concInt(args[0])
		if !ok {
			panic(engineErr("time.Sleep with symbolic duration"))
		}
		if d > 0 {
			fr.it.vtime += d
		}
		return nil
	})
}
