package main

// Incremental SMT solver process (z3 -in style) with define-fun sharing.

import (
	"bufio"
	"fmt"
	"io"
	"os/exec"
	"strconv"
	"strings"
	"time"
)

type solverKilled struct{}

type SatResult int

const (
	Unsat SatResult = iota
	Sat
	Unknown
)

func (r SatResult) String() string { return [...]string{"unsat", "sat", "unknown"}[r] }

type scope struct {
	defined  []int32
	declared []string
}

type Solver struct {
	name     string
	argv     []string
	cmd      *exec.Cmd
	in       io.WriteCloser
	out      *bufio.Reader
	defined  map[int32]bool
	declared map[string]*Term
	scopes   []scope
	buf      strings.Builder
	// statistics
	NCheck, NSat, NUnsat, NUnknown int
	Time                           time.Duration
	timeoutMs                      int
	log                            io.Writer
}

func solverArgv(kind string) []string {
	switch kind {
	case "z3":
		return []string{"z3", "-in"}
	case "cvc5":
		return []string{"cvc5", "--incremental", "--lang=smt2", "--produce-models"}
	default:
		return []string{"z3-new", "-in"}
	}
}

func NewSolver(kind string, timeoutMs int) (*Solver, error) {
	s := &Solver{name: kind, argv: solverArgv(kind), timeoutMs: timeoutMs}
	if err := s.start(); err != nil {
		return nil, err
	}
	return s, nil
}

func (s *Solver) start() error {
	s.cmd = exec.Command(s.argv[0], s.argv[1:]...)
	in, err := s.cmd.StdinPipe()
	if err != nil {
		return err
	}
	out, err := s.cmd.StdoutPipe()
	if err != nil {
		return err
	}
	s.cmd.Stderr = s.cmd.Stdout
	if err := s.cmd.Start(); err != nil {
		return err
	}
	s.in, s.out = in, bufio.NewReaderSize(out, 1<<16)
	s.defined = map[int32]bool{}
	s.declared = map[string]*Term{}
	s.scopes = nil
	s.buf.Reset()
	s.header()
	return nil
}

func (s *Solver) header() {
	if s.name == "cvc5" {
		s.send("(set-logic QF_BV)")
		s.send(fmt.Sprintf("(set-option :tlimit-per %d)", s.timeoutMs))
	} else {
		s.send("(set-option :produce-models true)")
		s.send(fmt.Sprintf("(set-option :timeout %d)", s.timeoutMs))
	}
}

// primaryMs is the cap for the in-process attempt; what it cannot decide goes to the portfolio.
func (s *Solver) primaryMs() int {
	if s.timeoutMs > 8000 {
		return 8000
	}
	return s.timeoutMs
}

func (s *Solver) Close() {
	if s.cmd != nil {
		s.in.Close()
		s.cmd.Process.Kill()
		s.cmd.Wait()
		s.cmd = nil
	}
}

func (s *Solver) Restart() {
	nc, ns, nu, nk, tm := s.NCheck, s.NSat, s.NUnsat, s.NUnknown, s.Time
	defer func() { s.NCheck, s.NSat, s.NUnsat, s.NUnknown, s.Time = nc, ns, nu, nk, tm }()
	s.Close()
	if err := s.start(); err != nil {
		panic(engineErr("solver restart: %v", err))
	}
}

func (s *Solver) send(line string) {
	s.buf.WriteString(line)
	s.buf.WriteByte('\n')
	if s.log != nil {
		fmt.Fprintln(s.log, line)
	}
}

func (s *Solver) flush() {
	if s.buf.Len() == 0 {
		return
	}
	if _, err := io.WriteString(s.in, s.buf.String()); err != nil {
		panic(engineErr("solver write: %v", err))
	}
	s.buf.Reset()
}

func (s *Solver) readLine() string {
	line, err := s.out.ReadString('\n')
	if err != nil {
		panic(engineErr("solver read: %v (%q)", err, line))
	}
	return strings.TrimSpace(line)
}

// readSexpr reads a balanced s-expression (possibly multi-line).
func (s *Solver) readSexpr() string {
	var sb strings.Builder
	depth := 0
	started := false
	inBar := false
	for {
		line, err := s.out.ReadString('\n')
		if err != nil {
			panic(engineErr("solver read: %v", err))
		}
		for _, c := range line {
			if inBar {
				if c == '|' {
					inBar = false
				}
				continue
			}
			switch c {
			case '|':
				inBar = true
			case '(':
				depth++
				started = true
			case ')':
				depth--
			}
		}
		sb.WriteString(line)
		if started && depth <= 0 {
			break
		}
		if !started && strings.TrimSpace(line) != "" {
			break
		}
	}
	return sb.String()
}

func (s *Solver) Push() {
	s.send("(push 1)")
	s.scopes = append(s.scopes, scope{})
}

func (s *Solver) Pop() {
	n := len(s.scopes) - 1
	sc := s.scopes[n]
	for _, id := range sc.defined {
		delete(s.defined, id)
	}
	for _, nm := range sc.declared {
		delete(s.declared, nm)
	}
	s.scopes = s.scopes[:n]
	s.send("(pop 1)")
}

func (s *Solver) Depth() int { return len(s.scopes) }

func (s *Solver) PopTo(d int) {
	for len(s.scopes) > d {
		s.Pop()
	}
}

// define emits declarations/definitions for t's DAG.
func (s *Solver) define(t *Term) {
	if t == nil || t.Op == OpConst {
		return
	}
	if t.Op == OpVar {
		if _, ok := s.declared[t.Name]; !ok {
			s.declared[t.Name] = t
			if n := len(s.scopes); n > 0 {
				s.scopes[n-1].declared = append(s.scopes[n-1].declared, t.Name)
			}
			s.send(fmt.Sprintf("(declare-const %s %s)", smtVarName(t.Name), sortName(t.W)))
		}
		return
	}
	if s.defined[t.ID] {
		return
	}
	// iterative post-order to avoid deep recursion
	type fr struct {
		t *Term
		i int
	}
	stack := []fr{{t, 0}}
	for len(stack) > 0 {
		top := &stack[len(stack)-1]
		var child *Term
		switch top.i {
		case 0:
			child = top.t.A
		case 1:
			child = top.t.B
		case 2:
			child = top.t.C
		}
		if top.i < 3 {
			top.i++
			if child == nil || child.Op == OpConst {
				continue
			}
			if child.Op == OpVar {
				s.define(child)
				continue
			}
			if !s.defined[child.ID] {
				stack = append(stack, fr{child, 0})
			}
			continue
		}
		u := top.t
		stack = stack[:len(stack)-1]
		if s.defined[u.ID] {
			continue
		}
		s.defined[u.ID] = true
		if n := len(s.scopes); n > 0 {
			s.scopes[n-1].defined = append(s.scopes[n-1].defined, u.ID)
		}
		s.send(fmt.Sprintf("(define-fun t%d () %s %s)", u.ID, sortName(u.W), termBody(u)))
	}
}

func (s *Solver) Assert(t *Term) {
	if t.Op == OpConst && t.Val != 0 {
		return
	}
	s.define(t)
	s.send("(assert " + termRef(t) + ")")
}

// Check decides satisfiability of current assertions plus extra (may be nil). On Sat returns a model of all declared vars.
func (s *Solver) Check(extra *Term, wantModel bool) (SatResult, Model) {
	start := time.Now()
	defer func() { s.Time += time.Since(start) }()
	s.NCheck++
	if extra != nil {
		if extra.Op == OpConst {
			if extra.Val == 0 {
				s.NUnsat++
				return Unsat, nil
			}
			extra = nil
		}
	}
	if extra != nil {
		s.Push()
		s.Assert(extra)
	}
	if s.name == "cvc5" {
		s.send("(check-sat)")
	} else {
		// the tactic pipeline (bit-blasting + SAT) is far more predictable on 64-bit comparison/urem
		// queries than z3's incremental core, and still runs inside the long-lived process
		s.send(fmt.Sprintf("(check-sat-using (try-for qfbv %d))", s.primaryMs()))
	}
	s.flush()
	var res SatResult
	// watchdog: z3 does not always honour :timeout inside bit-blasting; kill the process after the cap
	proc := s.cmd.Process
	killed := false
	timer := time.AfterFunc(time.Duration(s.primaryMs()+5000)*time.Millisecond, func() {
		killed = true
		proc.Kill()
	})
	defer timer.Stop()
	defer func() {
		if r := recover(); r != nil {
			if killed {
				panic(solverKilled{})
			}
			panic(r)
		}
	}()
	for {
		line := s.readLine()
		if line == "" {
			continue
		}
		switch {
		case line == "sat":
			res = Sat
		case line == "unsat":
			res = Unsat
		case line == "unknown" || strings.HasPrefix(line, "timeout"):
			res = Unknown
		case strings.Contains(line, "(error"):
			// drain and treat as unknown; restart solver to regain sync is caller's job
			panic(engineErr("solver error: %s", line))
		default:
			continue // warnings
		}
		break
	}
	var model Model
	if res == Sat && wantModel {
		model = s.getModel()
	}
	if extra != nil {
		s.Pop()
	}
	switch res {
	case Sat:
		s.NSat++
	case Unsat:
		s.NUnsat++
	default:
		s.NUnknown++
	}
	return res, model
}

func (s *Solver) getModel() Model {
	m := Model{}
	if len(s.declared) == 0 {
		return m
	}
	var sb strings.Builder
	sb.WriteString("(get-value (")
	for name := range s.declared {
		sb.WriteString(smtVarName(name))
		sb.WriteByte(' ')
	}
	sb.WriteString("))")
	s.send(sb.String())
	s.flush()
	resp := s.readSexpr()
	if strings.Contains(resp, "(error") {
		panic(engineErr("solver error in get-value: %s", resp))
	}
	parseModel(resp, m)
	return m
}

func parseModel(resp string, m Model) {
	// tokens: ( ) |name| value
	i := 0
	n := len(resp)
	var toks []string
	for i < n {
		c := resp[i]
		switch {
		case c == '(' || c == ')':
			toks = append(toks, string(c))
			i++
		case c == '|':
			j := strings.IndexByte(resp[i+1:], '|')
			toks = append(toks, resp[i+1:i+1+j])
			i += j + 2
		case c == ' ' || c == '\n' || c == '\t' || c == '\r':
			i++
		default:
			j := i
			for j < n && !strings.ContainsRune("() \n\t\r", rune(resp[j])) {
				j++
			}
			toks = append(toks, resp[i:j])
			i = j
		}
	}
	// pattern: ( name value ) where value may be "(_ bvN W)"
	for k := 0; k+2 < len(toks); k++ {
		if toks[k] != "(" || toks[k+1] == "(" {
			continue
		}
		name := toks[k+1]
		v := toks[k+2]
		switch {
		case v == "true":
			m[name] = 1
		case v == "false":
			m[name] = 0
		case strings.HasPrefix(v, "#x"):
			u, _ := strconv.ParseUint(v[2:], 16, 64)
			m[name] = u
		case strings.HasPrefix(v, "#b"):
			u, _ := strconv.ParseUint(v[2:], 2, 64)
			m[name] = u
		case v == "(" && k+4 < len(toks) && toks[k+3] == "_" && strings.HasPrefix(toks[k+4], "bv"):
			u, _ := strconv.ParseUint(toks[k+4][2:], 10, 64)
			m[name] = u
		}
	}
}

// Script renders a standalone SMT-LIB script deciding sat of the conjunction of ts.
func Script(ts []*Term) string {
	var sb strings.Builder
	defined := map[int32]bool{}
	declared := map[string]bool{}
	var def func(t *Term)
	def = func(t *Term) {
		if t == nil || t.Op == OpConst {
			return
		}
		if t.Op == OpVar {
			if !declared[t.Name] {
				declared[t.Name] = true
				fmt.Fprintf(&sb, "(declare-const %s %s)\n", smtVarName(t.Name), sortName(t.W))
			}
			return
		}
		if defined[t.ID] {
			return
		}
		def(t.A)
		def(t.B)
		def(t.C)
		defined[t.ID] = true
		fmt.Fprintf(&sb, "(define-fun t%d () %s %s)\n", t.ID, sortName(t.W), termBody(t))
	}
	for _, t := range ts {
		def(t)
		fmt.Fprintf(&sb, "(assert %s)\n", termRef(t))
	}
	sb.WriteString("(check-sat)\n")
	return sb.String()
}

// RunOneShot runs a solver binary on a script with a timeout; returns verdict.
func RunOneShot(kind, script string, timeout time.Duration) (SatResult, error) {
	var argv []string
	switch kind {
	case "z3":
		argv = []string{"z3", "-in", fmt.Sprintf("-T:%d", int(timeout.Seconds()))}
	case "z3-new":
		argv = []string{"z3-new", "-in", fmt.Sprintf("-T:%d", int(timeout.Seconds()))}
	case "cvc5":
		argv = []string{"cvc5", "--lang=smt2", fmt.Sprintf("--tlimit=%d", timeout.Milliseconds())}
		script = "(set-logic QF_BV)\n" + script
	}
	cmd := exec.Command(argv[0], argv[1:]...)
	cmd.Stdin = strings.NewReader(script)
	out, _ := cmd.CombinedOutput()
	o := string(out)
	if strings.Contains(o, "(error") {
		return Unknown, fmt.Errorf("solver error: %s", strings.TrimSpace(o))
	}
	for _, line := range strings.Split(o, "\n") {
		switch strings.TrimSpace(line) {
		case "sat":
			return Sat, nil
		case "unsat":
			return Unsat, nil
		}
	}
	return Unknown, nil
}
