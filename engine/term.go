package main

// Terms: hash-consed DAG over Bool and BitVec{8,16,32,64} with Go semantics.
// Width 0 denotes Bool.

import (
	"fmt"
	"math/bits"
	"strings"
)

type Op uint8

const (
	OpConst Op = iota
	OpVar
	OpNot // bool
	OpAnd
	OpOr
	OpEq  // any sort -> bool
	OpIte // cond, a, b
	OpAdd
	OpSub
	OpMul
	OpUDiv
	OpURem
	OpSDiv
	OpSRem
	OpBAnd
	OpBOr
	OpBXor
	OpBNot
	OpNeg
	OpShl
	OpLShr
	OpAShr
	OpULt
	OpULe
	OpSLt
	OpSLe
	OpZExt    // a, to width W
	OpSExt    // a
	OpExtract // a, low W bits (truncate) — hi:lo stored in Val as lo
)

var opNames = [...]string{"const", "var", "not", "and", "or", "=", "ite", "bvadd", "bvsub", "bvmul", "bvudiv", "bvurem", "bvsdiv", "bvsrem",
	"bvand", "bvor", "bvxor", "bvnot", "bvneg", "bvshl", "bvlshr", "bvashr", "bvult", "bvule", "bvslt", "bvsle", "zext", "sext", "extract"}

type Term struct {
	Op      Op
	W       uint8 // 0 = bool
	A, B, C *Term
	Val     uint64 // const value (masked) / extract low bit
	Name    string // var name
	ID      int32
}

func (t *Term) IsConst() bool { return t.Op == OpConst }
func (t *Term) IsBool() bool  { return t.W == 0 }

type termKey struct {
	op      Op
	w       uint8
	a, b, c int32
	val     uint64
	name    string
}

// TermTable is per worker (not shared between goroutines).
type TermTable struct {
	tab    map[termKey]*Term
	nextID int32
	bytes  [256]*Term
	tru    *Term
	fls    *Term
	vars   map[string]*Term
}

func NewTermTable() *TermTable {
	tt := &TermTable{tab: make(map[termKey]*Term), nextID: 1, vars: map[string]*Term{}}
	for i := range tt.bytes {
		tt.bytes[i] = &Term{Op: OpConst, W: 8, Val: uint64(i)}
	}
	tt.tru = &Term{Op: OpConst, W: 0, Val: 1}
	tt.fls = &Term{Op: OpConst, W: 0, Val: 0}
	return tt
}

func mask(w uint8) uint64 {
	if w == 0 {
		return 1
	}
	if w >= 64 {
		return ^uint64(0)
	}
	return (uint64(1) << w) - 1
}

func sext64(v uint64, w uint8) int64 {
	if w == 0 || w >= 64 {
		return int64(v)
	}
	sh := 64 - uint(w)
	return int64(v<<sh) >> sh
}

func (tt *TermTable) Const(w uint8, v uint64) *Term {
	v &= mask(w)
	if w == 8 {
		return tt.bytes[v]
	}
	if w == 0 {
		if v != 0 {
			return tt.tru
		}
		return tt.fls
	}
	return &Term{Op: OpConst, W: w, Val: v}
}

func (tt *TermTable) Bool(b bool) *Term {
	if b {
		return tt.tru
	}
	return tt.fls
}

func (tt *TermTable) Var(name string, w uint8) *Term {
	if t, ok := tt.vars[name]; ok {
		if t.W != w {
			panic(engineErr("var %s redeclared with different width", name))
		}
		return t
	}
	t := &Term{Op: OpVar, W: w, Name: name, ID: tt.nextID}
	tt.nextID++
	tt.vars[name] = t
	return t
}

func tid(t *Term) int32 {
	if t == nil {
		return 0
	}
	return t.ID
}

func (tt *TermTable) mk(op Op, w uint8, a, b, c *Term, val uint64) *Term {
	// Constants among children make the key ambiguous; encode their values in the name-free key by
	// interning constant children first.
	a, b, c = tt.internConst(a), tt.internConst(b), tt.internConst(c)
	k := termKey{op: op, w: w, a: tid(a), b: tid(b), c: tid(c), val: val}
	if t, ok := tt.tab[k]; ok {
		return t
	}
	t := &Term{Op: op, W: w, A: a, B: b, C: c, Val: val, ID: tt.nextID}
	tt.nextID++
	tt.tab[k] = t
	return t
}

// internConst gives non-byte/bool constants a stable identity so they can be children in hash-consed terms.
func (tt *TermTable) internConst(t *Term) *Term {
	if t == nil || t.Op != OpConst {
		return t
	}
	if t.ID != 0 {
		return t
	}
	k := termKey{op: OpConst, w: t.W, val: t.Val}
	if u, ok := tt.tab[k]; ok {
		return u
	}
	t.ID = tt.nextID
	tt.nextID++
	tt.tab[k] = t
	return t
}

func init() {
	// make tid work for interned consts
}

func sameTerm(a, b *Term) bool {
	if a == b {
		return true
	}
	if a.Op == OpConst && b.Op == OpConst {
		return a.W == b.W && a.Val == b.Val
	}
	return false
}

// ---- boolean ----

func (tt *TermTable) Not(a *Term) *Term {
	if a.Op == OpConst {
		return tt.Bool(a.Val == 0)
	}
	if a.Op == OpNot {
		return a.A
	}
	return tt.mk(OpNot, 0, a, nil, nil, 0)
}

func (tt *TermTable) And(a, b *Term) *Term {
	if a.Op == OpConst {
		if a.Val == 0 {
			return tt.fls
		}
		return b
	}
	if b.Op == OpConst {
		if b.Val == 0 {
			return tt.fls
		}
		return a
	}
	if a == b {
		return a
	}
	if (a.Op == OpNot && a.A == b) || (b.Op == OpNot && b.A == a) {
		return tt.fls
	}
	if a.ID > b.ID {
		a, b = b, a
	}
	return tt.mk(OpAnd, 0, a, b, nil, 0)
}

func (tt *TermTable) Or(a, b *Term) *Term {
	if a.Op == OpConst {
		if a.Val != 0 {
			return tt.tru
		}
		return b
	}
	if b.Op == OpConst {
		if b.Val != 0 {
			return tt.tru
		}
		return a
	}
	if a == b {
		return a
	}
	if (a.Op == OpNot && a.A == b) || (b.Op == OpNot && b.A == a) {
		return tt.tru
	}
	if a.ID > b.ID {
		a, b = b, a
	}
	return tt.mk(OpOr, 0, a, b, nil, 0)
}

func (tt *TermTable) Implies(a, b *Term) *Term { return tt.Or(tt.Not(a), b) }

func (tt *TermTable) Eq(a, b *Term) *Term {
	if a.W != b.W {
		panic(engineErr("Eq width mismatch %d %d", a.W, b.W))
	}
	if sameTerm(a, b) {
		return tt.tru
	}
	if a.Op == OpConst && b.Op == OpConst {
		return tt.Bool(a.Val == b.Val)
	}
	if a.W == 0 {
		// bool equality
		if a.Op == OpConst {
			if a.Val != 0 {
				return b
			}
			return tt.Not(b)
		}
		if b.Op == OpConst {
			if b.Val != 0 {
				return a
			}
			return tt.Not(a)
		}
	}
	// ite(c, k1, k2) == k  with constants
	if b.Op == OpConst && a.Op == OpIte && a.B.Op == OpConst && a.C.Op == OpConst {
		tb, tc := a.B.Val == b.Val, a.C.Val == b.Val
		switch {
		case tb && tc:
			return tt.tru
		case tb:
			return a.A
		case tc:
			return tt.Not(a.A)
		default:
			return tt.fls
		}
	}
	if a.Op == OpConst && b.Op == OpIte {
		return tt.Eq(b, a)
	}
	// zext(x) == const -> x == const' or false
	if b.Op == OpConst && a.Op == OpZExt {
		if b.Val&^mask(a.A.W) != 0 {
			return tt.fls
		}
		return tt.Eq(a.A, tt.Const(a.A.W, b.Val))
	}
	if a.Op == OpConst && b.Op == OpZExt {
		return tt.Eq(b, a)
	}
	if a.Op == OpConst || (b.Op != OpConst && a.ID > b.ID) {
		a, b = b, a
	}
	return tt.mk(OpEq, 0, a, b, nil, 0)
}

func (tt *TermTable) Ite(c, a, b *Term) *Term {
	if a.W != b.W {
		panic(engineErr("Ite width mismatch"))
	}
	if c.Op == OpConst {
		if c.Val != 0 {
			return a
		}
		return b
	}
	if sameTerm(a, b) {
		return a
	}
	if a.W == 0 {
		if a.Op == OpConst && b.Op == OpConst {
			if a.Val != 0 {
				return c
			}
			return tt.Not(c)
		}
		if a.Op == OpConst {
			if a.Val != 0 {
				return tt.Or(c, b)
			}
			return tt.And(tt.Not(c), b)
		}
		if b.Op == OpConst {
			if b.Val != 0 {
				return tt.Or(tt.Not(c), a)
			}
			return tt.And(c, a)
		}
	}
	if c.Op == OpNot {
		return tt.Ite(c.A, b, a)
	}
	return tt.mk(OpIte, a.W, c, a, b, 0)
}

// ---- bit-vector arithmetic ----

func (tt *TermTable) bin(op Op, a, b *Term) *Term {
	if a.W != b.W {
		panic(engineErr("%s width mismatch %d vs %d", opNames[op], a.W, b.W))
	}
	w := a.W
	if a.Op == OpConst && b.Op == OpConst {
		if v, ok := foldBin(op, w, a.Val, b.Val); ok {
			return tt.Const(w, v)
		}
	}
	// identities
	switch op {
	case OpAdd:
		if a.Op == OpConst && a.Val == 0 {
			return b
		}
		if b.Op == OpConst && b.Val == 0 {
			return a
		}
		// (x + c1) + c2
		if b.Op == OpConst && a.Op == OpAdd && a.B.Op == OpConst {
			return tt.bin(OpAdd, a.A, tt.Const(w, a.B.Val+b.Val))
		}
		if a.Op == OpConst {
			a, b = b, a
		}
	case OpSub:
		if b.Op == OpConst && b.Val == 0 {
			return a
		}
		if a == b {
			return tt.Const(w, 0)
		}
		if b.Op == OpConst {
			return tt.bin(OpAdd, a, tt.Const(w, -b.Val))
		}
	case OpMul:
		if a.Op == OpConst {
			a, b = b, a
		}
		if b.Op == OpConst {
			if b.Val == 0 {
				return b
			}
			if b.Val == 1 {
				return a
			}
		}
	case OpBAnd:
		if a.Op == OpConst {
			a, b = b, a
		}
		if b.Op == OpConst {
			if b.Val == 0 {
				return b
			}
			if b.Val == mask(w) {
				return a
			}
			if a.Op == OpZExt && b.Val&mask(a.A.W) == mask(a.A.W) {
				return a
			}
		}
		if a == b {
			return a
		}
	case OpBOr:
		if a.Op == OpConst {
			a, b = b, a
		}
		if b.Op == OpConst {
			if b.Val == 0 {
				return a
			}
			if b.Val == mask(w) {
				return b
			}
		}
		if a == b {
			return a
		}
	case OpBXor:
		if a.Op == OpConst {
			a, b = b, a
		}
		if b.Op == OpConst && b.Val == 0 {
			return a
		}
		if a == b {
			return tt.Const(w, 0)
		}
	case OpUDiv, OpSDiv:
		if b.Op == OpConst && b.Val == 1 {
			return a
		}
		if b.Op == OpConst && b.Val > 1 && b.Val&(b.Val-1) == 0 && sext64(b.Val, w) > 0 {
			k := uint64(bits.TrailingZeros64(b.Val))
			if op == OpUDiv {
				return tt.bin(OpLShr, a, tt.Const(w, k))
			}
			// signed division by 2^k truncates toward zero: add (2^k-1) to negative dividends first
			sign := tt.bin(OpAShr, a, tt.Const(w, uint64(w-1)))
			bias := tt.bin(OpBAnd, sign, tt.Const(w, b.Val-1))
			return tt.bin(OpAShr, tt.bin(OpAdd, a, bias), tt.Const(w, k))
		}
	case OpSRem:
		if b.Op == OpConst && b.Val > 1 && b.Val&(b.Val-1) == 0 && sext64(b.Val, w) > 0 {
			// x - (x / 2^k) * 2^k
			q := tt.bin(OpSDiv, a, b)
			k := uint64(bits.TrailingZeros64(b.Val))
			return tt.bin(OpSub, a, tt.bin(OpShl, q, tt.Const(w, k)))
		}
	case OpURem:
		if b.Op == OpConst && b.Val > 0 {
			c := b.Val
			if c&(c-1) == 0 {
				return tt.bin(OpBAnd, a, tt.Const(w, c-1))
			}
			m := umax(a)
			if m < c {
				return a
			}
			if m/c < 4 && m < mask(w)/2 {
				// x in [0, 4c): subtract c up to three times
				var r *Term
				// build nested: if a>=3c then a-3c elif a>=2c then a-2c elif a>=c then a-c else a
				r = a
				for k := uint64(1); k <= m/c; k++ {
					kc := tt.Const(w, k*c)
					r = tt.Ite(tt.cmp(OpULe, kc, a), tt.bin(OpSub, a, kc), r)
				}
				return r
			}
			// (x + k) % c with small k: share the divider of x % c (exact, including 2^w wrap-around)
			if a.Op == OpAdd && a.B.Op == OpConst && a.A.Op != OpConst && a.B.Val > 0 && a.B.Val < 3*c && a.B.Val < mask(w)/8 && c < mask(w)/8 {
				x, k := a.A, a.B.Val
				rx := tt.bin(OpURem, x, b) // x % c, umax c-1
				small := func(v *Term, bound uint64) *Term {
					// v % c for v known (semantically) to be < bound
					r := v
					for j := uint64(1); j*c < bound; j++ {
						jc := tt.Const(w, j*c)
						r = tt.Ite(tt.cmp(OpULe, jc, v), tt.bin(OpSub, v, jc), r)
					}
					return r
				}
				noWrap := tt.cmp(OpULe, x, tt.Const(w, mask(w)-k))
				nw := small(tt.bin(OpAdd, rx, tt.Const(w, k)), c+k)
				wr := small(a, k) // wrapped sum is < k
				return tt.Ite(noWrap, nw, wr)
			}
		}
	case OpShl, OpLShr, OpAShr:
		if b.Op == OpConst && b.Val == 0 {
			return a
		}
		if b.Op == OpConst && b.Val >= uint64(w) && op != OpAShr {
			return tt.Const(w, 0)
		}
	}
	return tt.mk(op, w, a, b, nil, 0)
}

func foldBin(op Op, w uint8, x, y uint64) (uint64, bool) {
	m := mask(w)
	switch op {
	case OpAdd:
		return (x + y) & m, true
	case OpSub:
		return (x - y) & m, true
	case OpMul:
		return (x * y) & m, true
	case OpUDiv:
		if y == 0 {
			return m, true
		}
		return x / y, true
	case OpURem:
		if y == 0 {
			return x, true
		}
		return x % y, true
	case OpSDiv:
		sx, sy := sext64(x, w), sext64(y, w)
		if sy == 0 {
			if sx < 0 {
				return 1, true
			}
			return m, true
		}
		if sy == -1 {
			return uint64(-sx) & m, true
		}
		return uint64(sx/sy) & m, true
	case OpSRem:
		sx, sy := sext64(x, w), sext64(y, w)
		if sy == 0 {
			return x, true
		}
		if sy == -1 {
			return 0, true
		}
		return uint64(sx%sy) & m, true
	case OpBAnd:
		return x & y, true
	case OpBOr:
		return x | y, true
	case OpBXor:
		return x ^ y, true
	case OpShl:
		if y >= uint64(w) {
			return 0, true
		}
		return (x << y) & m, true
	case OpLShr:
		if y >= uint64(w) {
			return 0, true
		}
		return x >> y, true
	case OpAShr:
		sx := sext64(x, w)
		if y >= uint64(w) {
			y = uint64(w) - 1
		}
		return uint64(sx>>y) & m, true
	}
	return 0, false
}

func (tt *TermTable) Add(a, b *Term) *Term  { return tt.bin(OpAdd, a, b) }
func (tt *TermTable) Sub(a, b *Term) *Term  { return tt.bin(OpSub, a, b) }
func (tt *TermTable) Mul(a, b *Term) *Term  { return tt.bin(OpMul, a, b) }
func (tt *TermTable) UDiv(a, b *Term) *Term { return tt.bin(OpUDiv, a, b) }
func (tt *TermTable) URem(a, b *Term) *Term { return tt.bin(OpURem, a, b) }
func (tt *TermTable) SDiv(a, b *Term) *Term { return tt.bin(OpSDiv, a, b) }
func (tt *TermTable) SRem(a, b *Term) *Term { return tt.bin(OpSRem, a, b) }
func (tt *TermTable) BAnd(a, b *Term) *Term { return tt.bin(OpBAnd, a, b) }
func (tt *TermTable) BOr(a, b *Term) *Term  { return tt.bin(OpBOr, a, b) }
func (tt *TermTable) BXor(a, b *Term) *Term { return tt.bin(OpBXor, a, b) }
func (tt *TermTable) Shl(a, b *Term) *Term  { return tt.bin(OpShl, a, b) }
func (tt *TermTable) LShr(a, b *Term) *Term { return tt.bin(OpLShr, a, b) }
func (tt *TermTable) AShr(a, b *Term) *Term { return tt.bin(OpAShr, a, b) }

func (tt *TermTable) BNot(a *Term) *Term {
	if a.Op == OpConst {
		return tt.Const(a.W, ^a.Val)
	}
	if a.Op == OpBNot {
		return a.A
	}
	return tt.mk(OpBNot, a.W, a, nil, nil, 0)
}

func (tt *TermTable) Neg(a *Term) *Term {
	if a.Op == OpConst {
		return tt.Const(a.W, -a.Val)
	}
	return tt.mk(OpNeg, a.W, a, nil, nil, 0)
}

// unsigned range of a term, cheap syntactic bound (inclusive max)
func umax(t *Term) uint64 {
	switch t.Op {
	case OpConst:
		return t.Val
	case OpZExt:
		return umax(t.A)
	case OpIte:
		a, b := umax(t.B), umax(t.C)
		if a > b {
			return a
		}
		return b
	case OpBAnd:
		a, b := umax(t.A), umax(t.B)
		if a < b {
			return a
		}
		return b
	case OpURem:
		if t.B.Op == OpConst && t.B.Val > 0 {
			return t.B.Val - 1
		}
	case OpAdd:
		a, b := umax(t.A), umax(t.B)
		if s := a + b; s >= a && s <= mask(t.W) {
			return s
		}
	case OpUDiv:
		if t.B.Op == OpConst && t.B.Val > 0 {
			return umax(t.A) / t.B.Val
		}
	case OpMul:
		a, b := umax(t.A), umax(t.B)
		hi, lo := bits.Mul64(a, b)
		if hi == 0 && lo <= mask(t.W) {
			return lo
		}
	case OpShl:
		if t.B.Op == OpConst && t.B.Val < 64 {
			a := umax(t.A)
			if r := a << t.B.Val; r>>t.B.Val == a && r <= mask(t.W) {
				return r
			}
		}
	case OpExtract:
		if m := umax(t.A); m <= mask(t.W) {
			return m
		}
	case OpBOr, OpBXor:
		a, b := umax(t.A), umax(t.B)
		if a < b {
			a = b
		}
		// smallest all-ones value covering the larger operand
		if a == 0 {
			return 0
		}
		return (uint64(1)<<uint(bits.Len64(a)) - 1) | a
	case OpLShr:
		if t.B.Op == OpConst && t.B.Val < 64 {
			return umax(t.A) >> t.B.Val
		}
	}
	return mask(t.W)
}

func (tt *TermTable) cmp(op Op, a, b *Term) *Term {
	if a.W != b.W {
		panic(engineErr("%s width mismatch %d vs %d", opNames[op], a.W, b.W))
	}
	w := a.W
	if a.Op == OpConst && b.Op == OpConst {
		switch op {
		case OpULt:
			return tt.Bool(a.Val < b.Val)
		case OpULe:
			return tt.Bool(a.Val <= b.Val)
		case OpSLt:
			return tt.Bool(sext64(a.Val, w) < sext64(b.Val, w))
		case OpSLe:
			return tt.Bool(sext64(a.Val, w) <= sext64(b.Val, w))
		}
	}
	if a == b {
		return tt.Bool(op == OpULe || op == OpSLe)
	}
	// x+y compared with x when the addition provably does not wrap
	if op == OpULt && a.Op == OpAdd && (a.A == b || a.B == b) {
		if sum := umax(a.A) + umax(a.B); sum >= umax(a.A) && sum <= mask(w) {
			return tt.fls
		}
	}
	if op == OpULe && b.Op == OpAdd && (b.A == a || b.B == a) {
		if sum := umax(b.A) + umax(b.B); sum >= umax(b.A) && sum <= mask(w) {
			return tt.tru
		}
	}
	// cheap range facts
	switch op {
	case OpULt:
		if b.Op == OpConst && b.Val == 0 {
			return tt.fls
		}
		if b.Op == OpConst && umax(a) < b.Val {
			return tt.tru
		}
		if a.Op == OpConst && a.Val >= umax(b) {
			return tt.fls
		}
	case OpULe:
		if a.Op == OpConst && a.Val == 0 {
			return tt.tru
		}
		if b.Op == OpConst && umax(a) <= b.Val {
			return tt.tru
		}
		if a.Op == OpConst && a.Val > umax(b) {
			return tt.fls
		}
	case OpSLt, OpSLe:
		// if both provably non-negative, same as unsigned
		half := mask(w) >> 1
		if umax(a) <= half && umax(b) <= half {
			if op == OpSLt {
				return tt.cmp(OpULt, a, b)
			}
			return tt.cmp(OpULe, a, b)
		}
	}
	// push comparison through zext on both sides / zext vs const
	if a.Op == OpZExt && b.Op == OpZExt && a.A.W == b.A.W && (op == OpULt || op == OpULe) {
		return tt.cmp(op, a.A, b.A)
	}
	if (op == OpULt || op == OpULe) && a.Op == OpZExt && b.Op == OpConst && b.Val <= mask(a.A.W) {
		return tt.cmp(op, a.A, tt.Const(a.A.W, b.Val))
	}
	if (op == OpULt || op == OpULe) && b.Op == OpZExt && a.Op == OpConst && a.Val <= mask(b.A.W) {
		return tt.cmp(op, tt.Const(b.A.W, a.Val), b.A)
	}
	return tt.mk(op, 0, a, b, nil, 0)
}

func (tt *TermTable) ULt(a, b *Term) *Term { return tt.cmp(OpULt, a, b) }
func (tt *TermTable) ULe(a, b *Term) *Term { return tt.cmp(OpULe, a, b) }
func (tt *TermTable) SLt(a, b *Term) *Term { return tt.cmp(OpSLt, a, b) }
func (tt *TermTable) SLe(a, b *Term) *Term { return tt.cmp(OpSLe, a, b) }

func (tt *TermTable) ZExt(a *Term, w uint8) *Term {
	if a.W == w {
		return a
	}
	if a.W > w {
		return tt.Trunc(a, w)
	}
	if a.Op == OpConst {
		return tt.Const(w, a.Val)
	}
	if a.Op == OpZExt {
		return tt.ZExt(a.A, w)
	}
	if a.Op == OpIte && a.B.Op == OpConst && a.C.Op == OpConst {
		return tt.Ite(a.A, tt.Const(w, a.B.Val), tt.Const(w, a.C.Val))
	}
	return tt.mk(OpZExt, w, a, nil, nil, 0)
}

func (tt *TermTable) SExt(a *Term, w uint8) *Term {
	if a.W == w {
		return a
	}
	if a.W > w {
		return tt.Trunc(a, w)
	}
	if a.Op == OpConst {
		return tt.Const(w, uint64(sext64(a.Val, a.W)))
	}
	if umax(a) <= mask(a.W)>>1 {
		return tt.ZExt(a, w)
	}
	return tt.mk(OpSExt, w, a, nil, nil, 0)
}

func (tt *TermTable) Trunc(a *Term, w uint8) *Term {
	if a.W == w {
		return a
	}
	if a.W < w {
		panic(engineErr("Trunc widening"))
	}
	if a.Op == OpConst {
		return tt.Const(w, a.Val)
	}
	if (a.Op == OpZExt || a.Op == OpSExt) && a.A.W == w {
		return a.A
	}
	if (a.Op == OpZExt || a.Op == OpSExt) && a.A.W < w {
		if a.Op == OpZExt {
			return tt.ZExt(a.A, w)
		}
		return tt.SExt(a.A, w)
	}
	if (a.Op == OpZExt || a.Op == OpSExt) && a.A.W > w {
		return tt.Trunc(a.A, w)
	}
	if a.Op == OpIte && a.B.Op == OpConst && a.C.Op == OpConst {
		return tt.Ite(a.A, tt.Const(w, a.B.Val), tt.Const(w, a.C.Val))
	}
	return tt.mk(OpExtract, w, a, nil, nil, 0)
}

// ---- evaluation under a model ----

type Model map[string]uint64

func (tt *TermTable) Eval(t *Term, m Model, memo map[*Term]uint64) uint64 {
	if t.Op == OpConst {
		return t.Val
	}
	if v, ok := memo[t]; ok {
		return v
	}
	var r uint64
	switch t.Op {
	case OpVar:
		r = m[t.Name] & mask(t.W)
	case OpNot:
		r = 1 - tt.Eval(t.A, m, memo)
	case OpAnd:
		r = tt.Eval(t.A, m, memo) & tt.Eval(t.B, m, memo)
	case OpOr:
		r = tt.Eval(t.A, m, memo) | tt.Eval(t.B, m, memo)
	case OpEq:
		if tt.Eval(t.A, m, memo) == tt.Eval(t.B, m, memo) {
			r = 1
		}
	case OpIte:
		if tt.Eval(t.A, m, memo) != 0 {
			r = tt.Eval(t.B, m, memo)
		} else {
			r = tt.Eval(t.C, m, memo)
		}
	case OpBNot:
		r = ^tt.Eval(t.A, m, memo) & mask(t.W)
	case OpNeg:
		r = -tt.Eval(t.A, m, memo) & mask(t.W)
	case OpULt, OpULe, OpSLt, OpSLe:
		x, y := tt.Eval(t.A, m, memo), tt.Eval(t.B, m, memo)
		w := t.A.W
		var b bool
		switch t.Op {
		case OpULt:
			b = x < y
		case OpULe:
			b = x <= y
		case OpSLt:
			b = sext64(x, w) < sext64(y, w)
		case OpSLe:
			b = sext64(x, w) <= sext64(y, w)
		}
		if b {
			r = 1
		}
	case OpZExt:
		r = tt.Eval(t.A, m, memo)
	case OpSExt:
		r = uint64(sext64(tt.Eval(t.A, m, memo), t.A.W)) & mask(t.W)
	case OpExtract:
		r = tt.Eval(t.A, m, memo) & mask(t.W)
	default:
		x, y := tt.Eval(t.A, m, memo), tt.Eval(t.B, m, memo)
		v, ok := foldBin(t.Op, t.W, x, y)
		if !ok {
			panic(engineErr("eval: unsupported op %d", t.Op))
		}
		r = v
	}
	memo[t] = r
	return r
}

// Vars collects variable names in t.
func collectVars(t *Term, seen map[*Term]bool, out map[string]*Term) {
	if t == nil || t.Op == OpConst || seen[t] {
		return
	}
	seen[t] = true
	if t.Op == OpVar {
		out[t.Name] = t
		return
	}
	collectVars(t.A, seen, out)
	collectVars(t.B, seen, out)
	collectVars(t.C, seen, out)
}

// ---- SMT-LIB printing ----

func sortName(w uint8) string {
	if w == 0 {
		return "Bool"
	}
	return fmt.Sprintf("(_ BitVec %d)", w)
}

func constSMT(t *Term) string {
	if t.W == 0 {
		if t.Val != 0 {
			return "true"
		}
		return "false"
	}
	if t.W%4 == 0 {
		return fmt.Sprintf("#x%0*x", int(t.W/4), t.Val)
	}
	return fmt.Sprintf("(_ bv%d %d)", t.Val, t.W)
}

func smtVarName(name string) string {
	return "|" + strings.ReplaceAll(strings.ReplaceAll(name, "|", "_"), "\\", "_") + "|"
}

func termRef(t *Term) string {
	switch t.Op {
	case OpConst:
		return constSMT(t)
	case OpVar:
		return smtVarName(t.Name)
	}
	return fmt.Sprintf("t%d", t.ID)
}

func termBody(t *Term) string {
	switch t.Op {
	case OpNot, OpBNot, OpNeg:
		return fmt.Sprintf("(%s %s)", opNames[t.Op], termRef(t.A))
	case OpIte:
		return fmt.Sprintf("(ite %s %s %s)", termRef(t.A), termRef(t.B), termRef(t.C))
	case OpZExt:
		return fmt.Sprintf("((_ zero_extend %d) %s)", t.W-t.A.W, termRef(t.A))
	case OpSExt:
		return fmt.Sprintf("((_ sign_extend %d) %s)", t.W-t.A.W, termRef(t.A))
	case OpExtract:
		return fmt.Sprintf("((_ extract %d 0) %s)", t.W-1, termRef(t.A))
	default:
		return fmt.Sprintf("(%s %s %s)", opNames[t.Op], termRef(t.A), termRef(t.B))
	}
}

func (t *Term) String() string {
	var sb strings.Builder
	var rec func(t *Term, d int)
	rec = func(t *Term, d int) {
		if t.Op == OpConst || t.Op == OpVar {
			sb.WriteString(termRef(t))
			return
		}
		if d > 6 {
			sb.WriteString("…")
			return
		}
		sb.WriteString("(" + opNames[t.Op])
		for _, c := range []*Term{t.A, t.B, t.C} {
			if c != nil {
				sb.WriteString(" ")
				rec(c, d+1)
			}
		}
		sb.WriteString(")")
	}
	rec(t, 0)
	return sb.String()
}

var _ = bits.Len64
