package main

import (
	"fmt"
	"go/types"
	"strings"

	"golang.org/x/tools/go/ssa"
)

// Value is a boxed interpreter value. Dynamic types:
//   *Term            bool and integer scalars (constant or symbolic)
//   float64/float32/complex128  concrete floats only
//   Str              strings: concrete length, bytes are *Term
//   Struct, Array    aggregates by value (copied on load/store)
//   []Value          slices (Go slice semantics reused: sharing, len, cap)
//   *Value           pointers
//   SymPtr           pointer to slice[idx] with symbolic idx (scalar elements only)
//   *Map, *Chan      reference objects
//   Iface            interfaces
//   *Closure, *ssa.Function, *ssa.Builtin  functions
//   Tuple            multi-value results
//   UPtr             unsafe.Pointer wrapping another pointer-like value
//   Poison           unknown value produced by tolerant package initialisation
type Value interface{}

type Str struct{ b []*Term }
type Struct []Value
type Array []Value
type Tuple []Value

type Iface struct {
	t types.Type
	v Value
}

type Closure struct {
	Fn  *ssa.Function
	Env []Value
}

type SymPtr struct {
	sl  []Value
	idx *Term // 64-bit
}

type UPtr struct{ p Value }

// SlicePtr is the result of unsafe.SliceData: a pointer to sl[0] that remembers its backing array.
type SlicePtr struct{ sl []Value }

// StrPtr is the result of unsafe.StringData.
type StrPtr struct{ s Str }

type Poison struct{ why string }

type mapEntry struct {
	k, v    Value
	deleted bool
}

type Map struct {
	kt      types.Type
	entries []*mapEntry
	conc    map[string]int // fast index for fully concrete keys -> entries index
	n       int            // live count
}

// ----- engine errors / signals -----

type engineError struct{ msg string }

func (e engineError) Error() string { return e.msg }

func engineErr(format string, args ...interface{}) engineError {
	return engineError{fmt.Sprintf(format, args...)}
}

type specAbort struct{ why string }

type targetPanic struct {
	v     Value
	kind  string // "explicit", "index", "slice", "nil", "divide", "assert", "closed", "other"
	in    string // innermost casket function at the point of panic
	where string
	trace string
}

type pathEnd struct {
	reason string // "assume", "exit", "budget", "deadlock", "done"
	detail string
}

// ----- type helpers -----

func basicWidth(k types.BasicKind) (uint8, bool) {
	switch k {
	case types.Bool, types.UntypedBool:
		return 0, true
	case types.Int8, types.Uint8:
		return 8, true
	case types.Int16, types.Uint16:
		return 16, true
	case types.Int32, types.Uint32, types.UntypedRune:
		return 32, true
	case types.Int, types.Uint, types.Int64, types.Uint64, types.Uintptr, types.UntypedInt:
		return 64, true
	}
	return 0, false
}

func isSignedKind(k types.BasicKind) bool {
	switch k {
	case types.Int, types.Int8, types.Int16, types.Int32, types.Int64, types.UntypedInt, types.UntypedRune:
		return true
	}
	return false
}

func underBasic(t types.Type) (*types.Basic, bool) {
	b, ok := t.Underlying().(*types.Basic)
	return b, ok
}

func typeWidth(t types.Type) uint8 {
	if b, ok := underBasic(t); ok {
		if w, ok := basicWidth(b.Kind()); ok {
			return w
		}
	}
	panic(engineErr("typeWidth: not an integer/bool type: %v", t))
}

func isSigned(t types.Type) bool {
	if b, ok := underBasic(t); ok {
		return isSignedKind(b.Kind())
	}
	return false
}

func isIntegerType(t types.Type) bool {
	if b, ok := underBasic(t); ok {
		return b.Info()&types.IsInteger != 0
	}
	return false
}

func isStringType(t types.Type) bool {
	if b, ok := underBasic(t); ok {
		return b.Info()&types.IsString != 0
	}
	return false
}

func isFloatType(t types.Type) bool {
	if b, ok := underBasic(t); ok {
		return b.Info()&types.IsFloat != 0
	}
	return false
}

func deref(t types.Type) types.Type {
	if p, ok := t.Underlying().(*types.Pointer); ok {
		return p.Elem()
	}
	panic(engineErr("deref of non-pointer type %v", t))
}

// ----- constructors -----

func (it *Interp) mkStr(s string) Str {
	b := make([]*Term, len(s))
	for i := 0; i < len(s); i++ {
		b[i] = it.tt.bytes[s[i]]
	}
	return Str{b}
}

func (s Str) concrete() (string, bool) {
	buf := make([]byte, len(s.b))
	for i, t := range s.b {
		if t.Op != OpConst {
			return "", false
		}
		buf[i] = byte(t.Val)
	}
	return string(buf), true
}

func (s Str) String() string {
	var sb strings.Builder
	for _, t := range s.b {
		if t.Op == OpConst {
			sb.WriteByte(byte(t.Val))
		} else {
			sb.WriteString("·")
		}
	}
	return sb.String()
}

func (it *Interp) intConst(w uint8, v int64) *Term { return it.tt.Const(w, uint64(v)) }
func (it *Interp) mkInt(v int) *Term              { return it.tt.Const(64, uint64(int64(v))) }

func concInt(v Value) (int64, bool) {
	t, ok := v.(*Term)
	if !ok || t.Op != OpConst {
		return 0, false
	}
	return sext64(t.Val, t.W), true
}

// zero returns the zero value of type t.
func (it *Interp) zero(t types.Type) Value {
	switch u := t.Underlying().(type) {
	case *types.Basic:
		if u.Kind() == types.UnsafePointer {
			return UPtr{}
		}
		if u.Info()&types.IsString != 0 {
			return Str{}
		}
		if u.Kind() == types.UntypedNil {
			panic(engineErr("zero of untyped nil"))
		}
		if u.Info()&types.IsFloat != 0 {
			if u.Kind() == types.Float32 {
				return float32(0)
			}
			return float64(0)
		}
		if u.Info()&types.IsComplex != 0 {
			return complex128(0)
		}
		w, _ := basicWidth(u.Kind())
		return it.tt.Const(w, 0)
	case *types.Pointer:
		return (*Value)(nil)
	case *types.Slice:
		return []Value(nil)
	case *types.Map:
		return (*Map)(nil)
	case *types.Chan:
		return (*Chan)(nil)
	case *types.Signature:
		return (*ssa.Function)(nil)
	case *types.Interface:
		return Iface{}
	case *types.Struct:
		s := make(Struct, u.NumFields())
		for i := range s {
			s[i] = it.zero(u.Field(i).Type())
		}
		return s
	case *types.Array:
		a := make(Array, u.Len())
		if u.Len() > 0 {
			z := it.zero(u.Elem())
			switch z.(type) {
			case Struct, Array:
				for i := range a {
					a[i] = it.zero(u.Elem())
				}
			default:
				for i := range a {
					a[i] = z
				}
			}
		}
		return a
	case *types.Tuple:
		tp := make(Tuple, u.Len())
		for i := range tp {
			tp[i] = it.zero(u.At(i).Type())
		}
		return tp
	}
	panic(engineErr("zero: unsupported type %v", t))
}

// copyVal makes an unaliased copy of aggregates.
func copyVal(v Value) Value {
	switch v := v.(type) {
	case Struct:
		c := make(Struct, len(v))
		for i, x := range v {
			c[i] = copyVal(x)
		}
		return c
	case Array:
		c := make(Array, len(v))
		for i, x := range v {
			c[i] = copyVal(x)
		}
		return c
	}
	return v
}

func isNilValue(v Value) (bool, bool) {
	switch v := v.(type) {
	case *Value:
		return v == nil, true
	case []Value:
		return v == nil, true
	case *Map:
		return v == nil, true
	case *Chan:
		return v == nil, true
	case *ssa.Function:
		return v == nil, true
	case *Closure:
		return v == nil, true
	case *ssa.Builtin:
		return false, true
	case Iface:
		return v.t == nil, true
	case UPtr:
		if v.p == nil {
			return true, true
		}
		return isNilValue(v.p)
	case SymPtr, SlicePtr, StrPtr:
		return false, true
	}
	return false, false
}

// equals returns a Bool term for Go's == on x and y (same static type).
func (it *Interp) equals(x, y Value) *Term {
	tt := it.tt
	switch x := x.(type) {
	case *Term:
		yt, ok := y.(*Term)
		if !ok {
			panic(engineErr("equals: %T vs %T", x, y))
		}
		return tt.Eq(x, yt)
	case Str:
		ys := y.(Str)
		if len(x.b) != len(ys.b) {
			return tt.fls
		}
		r := tt.tru
		for i := range x.b {
			r = tt.And(r, tt.Eq(x.b[i], ys.b[i]))
			if r == tt.fls {
				return r
			}
		}
		return r
	case float64:
		return tt.Bool(x == y.(float64))
	case float32:
		return tt.Bool(x == y.(float32))
	case complex128:
		return tt.Bool(x == y.(complex128))
	case *Value:
		switch y := y.(type) {
		case *Value:
			return tt.Bool(x == y)
		case SymPtr:
			return tt.fls
		}
	case SymPtr:
		if ys, ok := y.(SymPtr); ok && len(x.sl) > 0 && len(ys.sl) > 0 && &x.sl[0] == &ys.sl[0] {
			return tt.Eq(x.idx, ys.idx)
		}
		return tt.fls
	case *Map:
		return tt.Bool(x == y.(*Map))
	case *Chan:
		return tt.Bool(x == y.(*Chan))
	case UPtr:
		yu := y.(UPtr)
		xn, _ := isNilValue(x)
		yn, _ := isNilValue(yu)
		if xn || yn {
			return tt.Bool(xn && yn)
		}
		return it.equals(x.p, yu.p)
	case Iface:
		yi := y.(Iface)
		if x.t == nil || yi.t == nil {
			return tt.Bool(x.t == nil && yi.t == nil)
		}
		if !types.Identical(x.t, yi.t) {
			return tt.fls
		}
		if !types.Comparable(x.t) {
			panic(it.runtimePanic("other", "comparing uncomparable type "+x.t.String()))
		}
		return it.equals(x.v, yi.v)
	case Struct:
		ys := y.(Struct)
		r := tt.tru
		for i := range x {
			r = tt.And(r, it.equals(x[i], ys[i]))
			if r == tt.fls {
				return r
			}
		}
		return r
	case Array:
		ys := y.(Array)
		r := tt.tru
		for i := range x {
			r = tt.And(r, it.equals(x[i], ys[i]))
			if r == tt.fls {
				return r
			}
		}
		return r
	case *ssa.Function, *Closure, *ssa.Builtin, []Value:
		xn, _ := isNilValue(x)
		yn, _ := isNilValue(y)
		if xn || yn {
			return tt.Bool(xn && yn)
		}
		if xf, ok := x.(*ssa.Function); ok {
			if yf, ok := y.(*ssa.Function); ok {
				return tt.Bool(xf == yf)
			}
		}
		if xc, ok := x.(*Closure); ok {
			if yc, ok := y.(*Closure); ok {
				return tt.Bool(xc == yc)
			}
		}
		return tt.fls
	}
	panic(engineErr("equals: unsupported %T vs %T", x, y))
}

// ----- maps -----

func concKey(v Value) (string, bool) {
	switch v := v.(type) {
	case *Term:
		if v.Op == OpConst {
			return fmt.Sprintf("i%d:%d", v.W, v.Val), true
		}
		return "", false
	case Str:
		s, ok := v.concrete()
		if !ok {
			return "", false
		}
		return "s" + s, true
	case *Value:
		return fmt.Sprintf("p%p", v), true
	case *Map:
		return fmt.Sprintf("m%p", v), true
	case *Chan:
		return fmt.Sprintf("c%p", v), true
	case float64:
		return fmt.Sprintf("f%v", v), true
	case Iface:
		if v.t == nil {
			return "nil", true
		}
		k, ok := concKey(v.v)
		if !ok {
			return "", false
		}
		return "I" + v.t.String() + "|" + k, true
	case Struct:
		var sb strings.Builder
		sb.WriteString("S{")
		for _, f := range v {
			k, ok := concKey(f)
			if !ok {
				return "", false
			}
			fmt.Fprintf(&sb, "%d:%s,", len(k), k)
		}
		sb.WriteString("}")
		return sb.String(), true
	case Array:
		var sb strings.Builder
		sb.WriteString("A[")
		for _, f := range v {
			k, ok := concKey(f)
			if !ok {
				return "", false
			}
			fmt.Fprintf(&sb, "%d:%s,", len(k), k)
		}
		sb.WriteString("]")
		return sb.String(), true
	case UPtr:
		if v.p == nil {
			return "unil", true
		}
		return concKey(v.p)
	}
	return "", false
}

func (it *Interp) newMap(kt types.Type) *Map {
	return &Map{kt: kt, conc: map[string]int{}}
}

// find returns the index of the entry whose key equals k on this path, forking where undetermined. -1 if absent.
func (it *Interp) mapFind(m *Map, k Value) int {
	if ck, ok := concKey(k); ok {
		if !m.hasSym() {
			if i, ok := m.conc[ck]; ok {
				return i
			}
			return -1
		}
	}
	for i, e := range m.entries {
		if e.deleted {
			continue
		}
		eq := it.equals(e.k, k)
		if eq.Op == OpConst {
			if eq.Val != 0 {
				return i
			}
			continue
		}
		if it.branch(eq) {
			return i
		}
	}
	return -1
}

func (m *Map) hasSym() bool { return len(m.conc) != m.n }

func (it *Interp) mapGet(m *Map, k Value) (Value, bool) {
	if m == nil {
		return nil, false
	}
	i := it.mapFind(m, k)
	if i < 0 {
		return nil, false
	}
	return m.entries[i].v, true
}

func (it *Interp) mapSet(m *Map, k, v Value) {
	if m == nil {
		panic(it.runtimePanic("nil", "assignment to entry in nil map"))
	}
	i := it.mapFind(m, k)
	if i >= 0 {
		e := m.entries[i]
		old := e.v
		it.logUndo(func() { e.v = old })
		e.v = v
		return
	}
	e := &mapEntry{k: copyVal(k), v: v}
	m.entries = append(m.entries, e)
	m.n++
	ck, isConc := concKey(k)
	if isConc {
		m.conc[ck] = len(m.entries) - 1
	}
	it.logUndo(func() {
		m.entries = m.entries[:len(m.entries)-1]
		m.n--
		if isConc {
			delete(m.conc, ck)
		}
	})
}

func (it *Interp) mapDelete(m *Map, k Value) {
	if m == nil {
		return
	}
	i := it.mapFind(m, k)
	if i < 0 {
		return
	}
	e := m.entries[i]
	e.deleted = true
	m.n--
	ck, isConc := concKey(e.k)
	if isConc {
		delete(m.conc, ck)
	}
	it.logUndo(func() {
		e.deleted = false
		m.n++
		if isConc {
			m.conc[ck] = i
		}
	})
}

func (m *Map) live() []*mapEntry {
	var out []*mapEntry
	for _, e := range m.entries {
		if !e.deleted {
			out = append(out, e)
		}
	}
	return out
}

func valString(v Value) string {
	switch v := v.(type) {
	case nil:
		return "<nil>"
	case *Term:
		if v.Op == OpConst {
			if v.W == 0 {
				return fmt.Sprint(v.Val != 0)
			}
			return fmt.Sprint(sext64(v.Val, v.W))
		}
		return v.String()
	case Str:
		return fmt.Sprintf("%q", v.String())
	case Struct:
		var parts []string
		for _, f := range v {
			parts = append(parts, valString(f))
		}
		return "{" + strings.Join(parts, ",") + "}"
	case Array:
		return fmt.Sprintf("array[%d]", len(v))
	case []Value:
		if len(v) > 8 {
			return fmt.Sprintf("slice[%d]", len(v))
		}
		var parts []string
		for _, f := range v {
			parts = append(parts, valString(f))
		}
		return "[" + strings.Join(parts, ",") + "]"
	case Iface:
		if v.t == nil {
			return "nil-iface"
		}
		return fmt.Sprintf("iface(%s:%s)", v.t, valString(v.v))
	case *Value:
		if v == nil {
			return "nil-ptr"
		}
		return fmt.Sprintf("ptr(%p)", v)
	case Tuple:
		var parts []string
		for _, f := range v {
			parts = append(parts, valString(f))
		}
		return "(" + strings.Join(parts, ",") + ")"
	}
	return fmt.Sprintf("%T", v)
}
