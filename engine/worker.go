package main

import (
	"fmt"
	"math/rand"
	"os"
	"runtime/debug"
	"sort"
	"strings"
	"sync"
	"time"

	"golang.org/x/tools/go/ssa"
)

type Config struct {
	tier          string
	seed          int64
	workers       int
	solver        string
	queryTimeout  int // ms
	assertTimeout time.Duration
	noIfConv      bool
	budget        int64
	maxPaths      int64
	validate      int // witnesses to validate per harness
	trace         bool
	hangIsViolation bool
}

type stats struct {
	assertQueries int64
	portfolio     int64
	goroutines    int64
}

type Job struct {
	base []Decision
	last *Decision
}

func (j Job) prefix() []Decision {
	if j.last == nil {
		return nil
	}
	out := make([]Decision, len(j.base)+1)
	copy(out, j.base)
	out[len(j.base)] = *j.last
	return out
}

type Witness struct {
	Harness  string        `json:"harness"`
	Events   []NondetEvent `json:"events"`
	Observed []string      `json:"observed"`
	Outcome  string        `json:"outcome"`
}

type HarnessResult struct {
	Name          string
	Paths         int64
	PathsDone     int64 // reached end of harness
	PathsAssume   int64 // ended by an unsatisfiable assume (vacuous)
	PathsBudget   int64
	Decisions     int64
	Instructions  int64
	MaxPathInstr  int64
	Violations    []Violation
	Inconclusive  []string
	Witnesses     []Witness
	Samples       []string
	Funcs         map[string]bool
	Intrinsics    map[string]bool
	Labels        map[string]int64
	SolverChecks  int64
	SolverSat     int64
	SolverUnsat   int64
	SolverUnknown int64
	AssertQueries int64
	SolverTime    time.Duration
	IfConv        int64
	Wall          time.Duration
	MaxDepth      int
	Hangs         []Violation
	errors        int
	Uncovered     int64
	UncoveredWhy  []string
	Concurrent    bool
}

type Explorer struct {
	prog    *ssa.Program
	fn      *ssa.Function
	cfg     Config
	mu      sync.Mutex
	cond    *sync.Cond
	stack   []Job
	idle    int
	done    bool
	res     *HarnessResult
	nseen   int64
	rng     *rand.Rand
	stopAll bool
}

func (e *Explorer) push(jobs []Job) {
	e.mu.Lock()
	e.stack = append(e.stack, jobs...)
	e.mu.Unlock()
	e.cond.Broadcast()
}

func (e *Explorer) pop() (Job, bool) {
	e.mu.Lock()
	defer e.mu.Unlock()
	for {
		if e.done {
			return Job{}, false
		}
		if n := len(e.stack); n > 0 {
			j := e.stack[n-1]
			e.stack = e.stack[:n-1]
			return j, true
		}
		e.idle++
		if e.idle == e.cfg.workers {
			e.done = true
			e.cond.Broadcast()
			return Job{}, false
		}
		e.cond.Wait()
		e.idle--
	}
}

// Explore runs the harness function over all paths.
func Explore(prog *ssa.Program, fn *ssa.Function, cfg Config, mkInterp func() *Interp) *HarnessResult {
	e := &Explorer{prog: prog, fn: fn, cfg: cfg}
	e.cond = sync.NewCond(&e.mu)
	e.res = &HarnessResult{Name: fn.Name(), Funcs: map[string]bool{}, Intrinsics: map[string]bool{}, Labels: map[string]int64{}}
	e.rng = rand.New(rand.NewSource(cfg.seed))
	e.stack = []Job{{}}
	start := time.Now()
	stopProg := make(chan struct{})
	if os.Getenv("VERIF_PROGRESS") != "" {
		go func() {
			tk := time.NewTicker(5 * time.Second)
			defer tk.Stop()
			for {
				select {
				case <-stopProg:
					return
				case <-tk.C:
					e.mu.Lock()
					fmt.Fprintf(os.Stderr, "   progress: paths=%d queue=%d decisions=%d instrs=%d\n", e.res.Paths, len(e.stack), e.res.Decisions, e.res.Instructions)
					e.mu.Unlock()
				}
			}
		}()
	}
	var wg sync.WaitGroup
	for w := 0; w < cfg.workers; w++ {
		wg.Add(1)
		go func(w int) {
			defer wg.Done()
			e.worker(w, mkInterp)
		}(w)
	}
	wg.Wait()
	e.res.Wall = time.Since(start)
	close(stopProg)
	return e.res
}

func (e *Explorer) worker(w int, mkInterp func() *Interp) {
	var it *Interp
	defer func() {
		if it != nil && it.sol != nil {
			e.collect(it)
			it.sol.Close()
		}
	}()
	for {
		job, ok := e.pop()
		if !ok {
			return
		}
		if it == nil {
			it = mkInterp()
			it.cfg = e.cfg
			it.harnessName = e.fn.Name()
			sol, err := NewSolver(e.cfg.solver, e.cfg.queryTimeout)
			if err != nil {
				e.fail(fmt.Sprintf("cannot start solver: %v", err))
				return
			}
			it.sol = sol
			if p := os.Getenv("VERIF_SMTLOG"); p != "" && w == 0 {
				f, _ := os.Create(p)
				sol.log = f
			}
		}
		e.runPath(it, job)
	}
}

func (e *Explorer) fail(msg string) {
	e.mu.Lock()
	if len(e.res.Inconclusive) < 20 {
		e.res.Inconclusive = append(e.res.Inconclusive, msg)
	}
	e.mu.Unlock()
}

func (e *Explorer) runPath(it *Interp, job Job) {
	p := &PathState{prefix: job.prefix(), labelsChecked: map[string]int{}}
	it.path = p
	it.steps = 0
	it.depth = 0
	it.topFrame = nil
	it.cur = nil
	it.skipPhis = nil
	it.spec = 0
	it.resetPathEnv()
	undoMark := len(it.undo)
	if len(it.tt.tab) > 2_000_000 {
		// keep memory bounded: restart term table + solver between paths
		it.resetTerms()
	}
	it.pathsSinceRestart++
	if it.pathsSinceRestart >= 64 {
		it.pathsSinceRestart = 0
		it.sol.Restart()
	}
	it.sol.Push()
	outcome := "done"
	var detail string
	func() {
		defer func() {
			r := recover()
			if r == nil {
				return
			}
			switch r := r.(type) {
			case pathEnd:
				outcome, detail = r.reason, r.detail
			case *targetPanic:
				outcome = "panic"
				detail = it.panicString(r)
				it.recordViolation("panic", "panic:"+r.kind, detail, it.anyModel())
				v := &p.violations[len(p.violations)-1]
				v.In, v.Where, v.Trace = r.in, r.where, r.trace
			case engineError:
				outcome, detail = "error", r.msg
			case specAbort:
				outcome, detail = "error", "stray specAbort: "+r.why
			default:
				outcome, detail = "error", fmt.Sprintf("engine crash: %v\n%s", r, debug.Stack())
			}
		}()
		it.startMain()
		it.runHarness(e.fn)
	}()
	func() {
		defer func() { recover() }()
		it.endPath()
	}()
	if (outcome == "budget" || outcome == "deadlock") && it.cfg.hangIsViolation {
		it.recordViolation("hang", "terminates", detail, it.anyModel())
	}
	// witness for this path
	var wit *Witness
	if p.concurrent {
		e.mu.Lock()
		e.res.Concurrent = true
		e.mu.Unlock()
	}
	if (outcome == "done" || outcome == "panic") && e.cfg.validate > 0 && !p.concurrent {
		if m := it.anyModel(); m != nil {
			wit = &Witness{Harness: e.fn.Name(), Events: it.eventsWithModel(m), Outcome: outcome}
			if outcome == "panic" {
				wit.Outcome = "panic"
			}
			for _, o := range p.observes {
				wit.Observed = append(wit.Observed, it.formatObservation(o, m))
			}
			if len(p.violations) > 0 && outcome != "panic" {
				wit = nil // assertion-violating paths are replayed separately
			}
		}
	}
	it.sol.PopTo(0)
	it.sol.flush()
	it.rollback(undoMark)

	// schedule siblings
	var jobs []Job
	ds := p.decisions
	for i := len(p.prefix); i < len(ds); i++ {
		for _, pa := range ds[i].Pending {
			d := Decision{Kind: ds[i].Kind, N: ds[i].N, Vals: ds[i].Vals, Chosen: pa.idx, Pending: []pendingAlt{{idx: -1, model: pa.model}}}
			jobs = append(jobs, Job{base: ds[:i:i], last: &d})
		}
	}
	// strip pending from stored decisions to free memory
	e.mu.Lock()
	r := e.res
	r.Paths++
	switch outcome {
	case "done", "panic", "exit":
		r.PathsDone++
	case "assume":
		r.PathsAssume++
	case "budget":
		r.PathsBudget++
		if !it.cfg.hangIsViolation && len(r.Inconclusive) < 20 {
			r.Inconclusive = append(r.Inconclusive, "budget exhausted: "+detail)
		}
		// paths that run out of budget are expensive and, past the first few, add nothing to the
		// verdict (a hang violation, or inconclusive): stop exploring this harness
		// (only where exhausting the budget is inconclusive anyway; a harness that declared Terminates
		// sets its own small budget and is explored completely)
		if r.PathsBudget >= 24 && !e.stopAll && !it.cfg.hangIsViolation {
			e.stopAll = true
			r.Inconclusive = append(r.Inconclusive, "exploration stopped after 24 paths exhausted the instruction budget")
		}
	case "deadlock":
		r.PathsDone++
		if !it.cfg.hangIsViolation && len(r.Inconclusive) < 20 {
			r.Inconclusive = append(r.Inconclusive, "deadlock (harness does not declare Terminates): "+detail)
		}
	case "error":
		if it.tolerateUnsupported && !strings.Contains(detail, "engine crash") {
			// the harness declared that code outside the engine's reach (reflection, templates, ...)
			// may be met: such paths are counted as not covered instead of failing the check
			r.Uncovered++
			if len(r.UncoveredWhy) < 8 {
				why := detail
				if len(why) > 160 {
					why = why[:160]
				}
				dup := false
				for _, w := range r.UncoveredWhy {
					dup = dup || w == why
				}
				if !dup {
					r.UncoveredWhy = append(r.UncoveredWhy, why)
				}
			}
			break
		}
		r.errors++
		if len(r.Inconclusive) < 20 {
			r.Inconclusive = append(r.Inconclusive, detail+" [path "+pathString(ds)+"]")
		}
		if r.errors >= 40 && !e.stopAll {
			e.stopAll = true
			r.Inconclusive = append(r.Inconclusive, "exploration stopped after 40 engine errors")
		}
	}
	if p.unknowns > 0 && len(r.Inconclusive) < 20 {
		r.Inconclusive = append(r.Inconclusive, fmt.Sprintf("%d solver unknowns on a path", p.unknowns))
	}
	r.Decisions += int64(len(ds) - len(p.prefix))
	r.Instructions += it.steps
	if it.steps > r.MaxPathInstr && outcome != "budget" {
		r.MaxPathInstr = it.steps
	}
	if len(ds) > r.MaxDepth {
		r.MaxDepth = len(ds)
	}
	for l, n := range p.labelsChecked {
		r.Labels[l] += int64(n)
	}
	for _, v := range p.violations {
		r.Violations = append(r.Violations, v)
	}
	if wit != nil {
		e.nseen++
		if len(r.Witnesses) < e.cfg.validate {
			r.Witnesses = append(r.Witnesses, *wit)
		} else if j := e.rng.Int63n(e.nseen); j < int64(e.cfg.validate) {
			r.Witnesses[j] = *wit
		}
	}
	if len(r.Samples) < 5 && (outcome == "done" || outcome == "panic") {
		if m := it.lastModel; m != nil {
			r.Samples = append(r.Samples, fmt.Sprintf("%s: %s -> %s", e.fn.Name(), describeEvents(it.eventsWithModel(m)), outcome))
		}
	}
	tooMany := e.cfg.maxPaths > 0 && r.Paths >= e.cfg.maxPaths
	if tooMany && !e.stopAll {
		e.stopAll = true
		r.Inconclusive = append(r.Inconclusive, fmt.Sprintf("path limit %d reached", e.cfg.maxPaths))
	}
	if !e.stopAll {
		e.stack = append(e.stack, jobs...)
	} else {
		e.stack = nil
	}
	e.mu.Unlock()
	if len(jobs) > 0 {
		e.cond.Broadcast()
	}
}

func pathString(ds []Decision) string {
	var sb strings.Builder
	for i, d := range ds {
		if i > 60 {
			sb.WriteString("…")
			break
		}
		fmt.Fprintf(&sb, "%c%d", d.Kind, d.Chosen)
	}
	return sb.String()
}

// finish merges per-interpreter statistics into the result.
func (e *Explorer) collect(it *Interp) {
	e.mu.Lock()
	defer e.mu.Unlock()
	r := e.res
	for f := range it.funcsSeen {
		r.Funcs[f.String()] = true
	}
	for n := range it.intrSeen {
		r.Intrinsics[n] = true
	}
	r.SolverChecks += int64(it.sol.NCheck)
	r.SolverSat += int64(it.sol.NSat)
	r.SolverUnsat += int64(it.sol.NUnsat)
	r.SolverUnknown += int64(it.sol.NUnknown)
	r.SolverTime += it.sol.Time
	r.AssertQueries += it.stats.assertQueries
	r.IfConv += it.statIfConv
}

func (it *Interp) anyModel() Model {
	p := it.path
	if p.model != nil {
		it.lastModel = p.model
		return p.model
	}
	if len(p.pc) == 0 {
		// no symbolic constraint on this path: every assignment is a model
		p.model = Model{}
		it.lastModel = p.model
		return p.model
	}
	r, m := it.check(nil, true)
	if r == Sat {
		p.model = m
		it.lastModel = m
		return m
	}
	return nil
}

func (it *Interp) resetTerms() {
	// Terms referenced from global state (constants) remain valid objects; only the hash-cons table is dropped.
	it.tt.tab = make(map[termKey]*Term)
	it.tt.vars = map[string]*Term{}
	it.consts = map[*ssa.Const]Value{}
	it.sol.Restart()
}

func (it *Interp) panicString(tp *targetPanic) string {
	switch v := tp.v.(type) {
	case Iface:
		if v.t == nil {
			return "panic(nil)"
		}
		if s, ok := v.v.(Str); ok {
			return fmt.Sprintf("%s: %s", tp.kind, s.String())
		}
		// error value: try Error()
		if types_isError(v.t) {
			if s, ok := it.tryErrorString(v); ok {
				return fmt.Sprintf("%s: %s", tp.kind, s)
			}
		}
		return fmt.Sprintf("%s: value of type %s", tp.kind, v.t)
	}
	return tp.kind
}

func sortedKeys(m map[string]bool) []string {
	out := make([]string, 0, len(m))
	for k := range m {
		out = append(out, k)
	}
	sort.Strings(out)
	return out
}

var _ = os.Stderr
