#!/usr/bin/env python3
# Regenerates MANIFEST.json from the table below (kept in one place so it stays valid).
import json
ENV = "GOFLAGS=-mod=mod GOPROXY=off GOSUMDB=off GOTOOLCHAIN=local"
claimed = {
 "C17": dict(ref="DESIGN.md §4 C17",
   text="Bounded symbolic execution of the real limits code over go/ssa: every path of one Read step from an arbitrary reader state (remaining limit any int64>=0, buffer 0..4 bytes, underlying reader returning any count/error) ends in an SMT query pc∧¬assertion that is unsat; counterexamples are replayed natively.",
   note="Bounds: buffer length <= 4 bytes, one or two Read calls; limit value fully symbolic (64-bit). Trusted: go/ssa construction, the engine's instruction semantics (validated per run by native replay of sampled path witnesses), z3."),
}
not_applicable = {
 "C07": "Not decidable by symbolic execution of casket's code: the observable is the fate of real connections on kernel sockets while descriptors are duplicated and net/http drains; a verdict would be about a hand-written model of the kernel and net/http, not about this code (DESIGN.md §4 C07).",
}
pending = ["C01","C02","C03","C04","C05","C06","C08","C09","C10","C11","C12","C13","C14","C15","C16","C18","C19","C20"]
checks = []
for pid, c in sorted(claimed.items()):
    checks.append({
      "property_id": pid,
      "quick_cmd": f"{ENV} ./bin/verif check {pid} --tier quick",
      "thorough_cmd": f"{ENV} ./bin/verif check {pid} --tier thorough",
      "evidence_file": f"/verif/evidence/{pid}.json",
      "replay_cmd_template": f"{ENV} ./bin/verif replay {{path}}",
      "engine": "gosym",
      "level_claimed": {"category": "model_checking", "text": c["text"], "design_ref": c["ref"]},
      "level_note": c["note"],
      "technique": "solver-based bounded symbolic execution of the real Go code (go/ssa -> SMT bit-vectors, z3), counterexamples replayed natively",
    })
na = [{"property_id": k, "reason": v} for k, v in sorted(not_applicable.items())]
for p in pending:
    if p not in claimed and p not in not_applicable:
        na.append({"property_id": p, "reason": "check not built yet in this session (harness pending); not claimed until its bounds have run clean on the unchanged tree"})
m = {
 "version": 1,
 "setup_cmd": f"cd /verif/engine && {ENV} go build -o /verif/bin/verif .",
 "hooks": {"guard": "verif", "enable": "harnesses and the verifrt runtime are injected with go/packages Overlay and `go test -tags verif -overlay`; nothing under /repo is modified", "baseline_off_cmd": f"cd /repo && {ENV} go test -vet=off -count=1 -timeout 25m ./...", "source_commits": [], "add_only": True},
 "engines": [{"name": "gosym", "path": "/verif/engine", "serves_properties": sorted(claimed.keys()), "kind_free_text": "KLEE-style symbolic interpreter over go/ssa (x/tools v0.29.0) with SMT back end (z3 5.1 incremental; z3 4.8.12 / cvc5 portfolio), replay forking, native counterexample replay"}],
 "checks": checks,
 "not_applicable": sorted(na, key=lambda x: x["property_id"]),
 "notes": "Exit codes: 0 held within bounds, 1 VIOLATION (natively reproduced), 2 INCONCLUSIVE (solver unknown, unsupported instruction, harness does not build, witness mismatch). Fix commits in /repo are listed in known_findings.json as fixed entries.",
}
json.dump(m, open("/verif/MANIFEST.json", "w"), indent=1)
print("claimed:", sorted(claimed.keys()))
