#!/usr/bin/env python3
# Regenerates MANIFEST.json from the table below (kept in one place so it stays valid).
import json
ENV = "GOFLAGS=-mod=mod GOPROXY=off GOSUMDB=off GOTOOLCHAIN=local"
claimed = {
 "C01": dict(ref="DESIGN.md §4 C01",
   text="Bounded symbolic execution of the real vhostTrie (Insert/Match/matchHost/matchPath/splitHostPath incl. strings.Split/Join/ToLower, net.SplitHostPort from their SSA): for 1..2 sites (3 thorough) over host patterns {a,b,*}-labels / catch-all spellings x path prefixes, and every request host (any case, optional port) / path within the bound, Match returns a site acceptable to a declarative statement-level spec; and two tries built in different declaration orders agree. Every path ends in an SMT query; counterexamples are replayed natively.",
   note="Bounds: sites <= 2 (quick) / 3 (thorough); labels are one byte from {a,b,*} (request {a,b,A}); site path '/' + <= 1 byte, request path '/' + <= 2 bytes from {a,b,/}; duplicate site keys excluded (documented precondition). The server entry point (Server.ServeHTTP: exactly one site's handler or 404/421, prefix trimming) is covered for <=2 sites. Trusted: go/ssa, engine semantics (validated by native replay of sampled witnesses), z3."),
 "C03": dict(ref="DESIGN.md §4 C03",
   text="Bounded symbolic execution of the real rule matcher and gates: (a) for every request path '/'+<=4 bytes (5 thorough) over {/ . a A \\ %} and every rule base '/'+<=2 bytes (3 thorough), if path.Clean('/'+p) -- what http.Dir opens -- lies under the cleaned base then Path.Matches(base) holds (both Clean calls are the real std code); (b) BasicAuth.ServeHTTP with resource/exclude rules, credentials absent/wrong/right, GET/OPTIONS: the next handler never runs without credentials for a path resolving under the resource and outside its excludes, refusal is 401 with no body, with credentials the request is passed on unchanged; (c) Internal.ServeHTTP never passes an internal path on.",
   note="Bounds as stated; CaseSensitivePath symbolic. The composition with path-rewriting directives in front of the gate (rewrite, tryfiles, ext) and content handlers behind it is not yet covered by this check."),
 "C05": dict(ref="DESIGN.md §4 C05",
   text="Bounded symbolic execution of every load-balancing policy's real Select (Random, LeastConn, RoundRobin, IPHash, URIHash, First, Header), hostByHashing, UpstreamHost.Down/Full/Available and the CheckDown closure built by staticUpstream.NewHost: pool sizes 1..5 (8 thorough) with fully symbolic per-backend state (Unhealthy, Fails, Conns, MaxConns, MaxFails), symbolic keys / 32-bit cursor / rand value; asserts result!=nil iff an available backend exists, result available and in pool, first=earliest, least_conn minimal, round_robin next-in-cyclic-order and even, hash policies stable.",
   note="Bounds: pool <= 5 (8 thorough); real FNV-1a hash only for keys <= 2 bytes and pools <= 3, larger pools with the hash summarised as a free 32-bit value (superset; native replay searches a key with the same residue); rand.Int() is an arbitrary non-negative int. The retry loop of Proxy.ServeHTTP (try_duration/fail_timeout) is not covered yet."),
 "C06": dict(ref="DESIGN.md §4 C06",
   text="Bounded symbolic execution of the real TLS selection code: MakeTLSConfig/buildStandardTLSConfig/SetDefaultTLSParams build the per-listener group for 1..2 (3 thorough) sites (host patterns over {a,*} labels and the catch-all spellings, first site's versions/ClientAuth/ciphers symbolic), then configGroup.GetConfigForClient is called for every SNI name of 1..2 labels in any case with optional surrounding blanks; asserts the returned tls.Config is the one of the most specific site (exact, wildcard, catch-all) and carries that site's versions, client-auth policy, FALLBACK_SCSV first and acme-tls/1; TLS1.2 default minimum; TLS/plaintext mixing and conflicting same-name configs rejected; strict SNI/Host agreement in Server.serveHTTP for client-auth sites.",
   note="The TLS handshake itself (crypto/tls honouring the returned config), certificates and client CA pools are outside. Bounds: <=2 sites quick, one-byte labels, SNI/Host names <=2 bytes (3 thorough) over {a,A,b,.}."),
 "C10": dict(ref="DESIGN.md §4 C10",
   text="Bounded symbolic execution of the real lexer/parser: allTokens on every input of <=4 bytes (5 thorough) over the lexical alphabet and <=2 arbitrary bytes (UTF-8/BOM paths); parser.parseAll on every token sequence of <=4 tokens (6 thorough) over the structural vocabulary with arbitrary line breaks and on sequences with snippet definitions/imports; structured snippet definitions + use; file import equals inline; replaceEnvVars on every token <=5 bytes over {{}$%V} with every value <=4 bytes. Asserts totality, termination within a derived instruction budget (a budget overrun is replayed natively under a wall-clock guard), errors name file:line, keys and directive tokens exactly as written.",
   note="Termination is claimed only within the bounds. Known finding (listed, not fixed): snippet import cycles never terminate. Imports use an in-memory file table (os.Open/Stat, filepath.Glob/Abs intrinsics); JSON conversion is outside."),
 "C12": dict(ref="DESIGN.md §4 C12",
   text="Bounded symbolic execution of the real request entry point and wrappers: a site built with SiteConfig.AddMiddleware + httpserver.NewServer for every subset of {log, header, errors (debug on/off)} around an innermost handler with every behaviour in the bound (explicit status 200/204/404/500 or none, 0..2 chunks of symbolic bytes, returns 0/200/404/500/503 with or without error, panics before or after writing), driven through Server.ServeHTTP into a client-side ResponseWriter that enforces net/http's rules (first status wins, codes < 100 panic). Asserts: no superfluous header commit, written status/body/headers unaltered, error status delivered with a body, panic before writing gives 500, configured header applied, and a second request through the same server is served.",
   note="gzip, templates, mime, status, limits, request_id and rewrite wrappers are not in this chain yet (gzip's transparency is C18); HTTP/2 is outside. runtime.Callers/Stack are inert intrinsics."),
 "C13": dict(ref="DESIGN.md §4 C13",
   text="SMT-decided kernels on the real fastcgi client code: header.init for every content length 0..65535 (padding < 8, 8-aligned), encodeSize for every size < 2^31 against the specification decoder, writeRecord wire layout for symbolic contents, and streamReader over every framing of <= 2 (3 thorough) stdout/stderr/other records with symbolic payloads, padding, read chunking and reader buffer sizes.",
   note="Bounds: record content <= 9 bytes (17 thorough) in writeRecord; stream harness payload <= 2 bytes per record, padding <= 1. encoding/binary.Read/Write are modelled by an intrinsic (fixed big-endian layout). writePairs, buildEnv, the body path and extension routing are not covered yet."),
 "C18": dict(ref="DESIGN.md §4 C18",
   text="Bounded symbolic execution of the real gzip middleware (Gzip.ServeHTTP, gzipResponseWriter, ResponseFilterWriter, SkipCompressedFilter, LengthFilter, ExtFilter, writer pool) against the same inner handler run without it: for every inner response in the bound (Content-Type present/absent, Content-Length absent/right/wrong, pre-set Content-Encoding in {none,gzip,br,zstd,deflate,identity}, ETag, status 200/204/304/404 explicit or implicit, 0..2 writes of symbolic bytes), every Accept-Encoding in {none,gzip,zstd,'gzip, zstd',identity}, request path by extension and min_length setting: the decoded body equals the identity body, gzip only when offered, already-encoded responses are not encoded again, Content-Encoding otherwise unchanged, Content-Length absent or correct, Vary: Accept-Encoding once.",
   note="compress/gzip.Writer is modelled as a tagging identity encoder (1f 8b '(' payload ')'); that DEFLATE round-trips is the standard library's property. The native replay uses the real gzip and decodes with compress/gzip. Precompressed static siblings under the gzip middleware are not covered yet."),
 "C19": dict(ref="DESIGN.md §4 C19",
   text="Bounded symbolic execution of the peer-facing parsers on arbitrary bytes: parseRawClientHello on every input of 0..52 bytes (62 thorough) with all bytes symbolic; the browser heuristics (looksLikeFirefox/Chrome/Edge/Safari/Tor, heartbeat) on arbitrary extension/curve/cipher lists; getVersion; clientHelloConn.Read for every split point of a record into reads (recorded info equals parse of the whole, bytes passed on unchanged); parseLinkHeader on every string <= 6 bytes over {<>;,=a space} and <= 3 arbitrary bytes. Any panic escaping is a violation; counterexamples are replayed natively.",
   note="Bounds as stated; hello bodies of 42..43 bytes in the segmentation harness with one cut (two cuts thorough). fastcgi records, replacer and basicauth header parsing are not covered yet by this check."),
 "C20": dict(ref="DESIGN.md §4 C20",
   text="Bounded symbolic execution of the real replacer and log middleware: Replace is total on every format <=4 bytes (5 thorough) over the placeholder syntax; request text (header, custom placeholder, query value) of <=3 symbolic bytes over an alphabet that can spell placeholders is inserted verbatim exactly once between escaped-brace literals; unknown placeholders yield the empty-value marker; Logger.ServeHTTP with path scopes/exceptions, 1..2 log entries and every inner-handler behaviour (writes with/without status, chunks, error returns) emits exactly one line per entry whose {status} {size} equal what the fake client received, none out of scope.",
   note="Concurrent requests sharing a log, log rolling, and the {request}/{request_body}/TLS/time placeholders are outside. (*log.Logger) output is modelled by an intrinsic that formats the line and writes it to the harness sink."),
 "C15": dict(ref="DESIGN.md §4 C15",
   text="Bounded symbolic execution of the real qualification and redirect code: markQualifiedForAutoHTTPS + enableAutoHTTPS (IsLoopback, IsInternal, net.ParseIP/ParseCIDR and certmagic.SubjectQualifiesForPublicCert from their SSA) for every combination of scheme x port x 21 host classes (symbolic label) x manual/self-signed/email flags against the eight conditions of the statement written directly; makePlaintextRedirects over <=3 sites x 2 hosts x ports {80,443,8443} with symbolic TLS/NoRedirect flags; the synthesised redirect middleware on every Host (names, IPv4, bracketed IPv6, 1..2 symbolic bytes, with/without port) and request URI: 301, Location = https://host[:port]/path?query, Connection: close.",
   note="Certificate obtain/renew calls, on-demand TLS, the bind directive's ListenHost and the TLS-disabling loop of MakeServers are outside this check."),
 "C17": dict(ref="DESIGN.md §4 C17",
   text="Bounded symbolic execution of the real limits / listener code over go/ssa: one maxBytesReader.Read step from an arbitrary reader state (remaining limit any int64>=0, buffer 0..4 bytes, underlying reader returning any count/error); whole bodies 0..5 bytes against limits 0..3 and 2^63-1 under every chunking and buffer size; scope selection of Limit.ServeHTTP over <=3 nested path scopes (longest matching scope wins); parseSize exactness for 1..3 and 10..11 digit numbers x every unit (64-bit overflow); strictest-of listener timeouts and header limit over <=2 (3 thorough) / <=4 sites with fully symbolic 64-bit values.",
   note="Bounds as stated. The proxy's mapping of the too-large error to 413 is not covered yet. Trusted: go/ssa construction, the engine's instruction semantics (validated per run by native replay of sampled path witnesses), z3 / cvc5."),
}
not_applicable = {
 "C07": "Not decidable by symbolic execution of casket's code: the observable is the fate of real connections on kernel sockets while descriptors are duplicated and net/http drains; a verdict would be about a hand-written model of the kernel and net/http, not about this code (DESIGN.md §4 C07).",
}
pending = ["C02","C04","C08","C09","C11","C14","C16"]
checks = []
for pid, c in sorted(claimed.items()):
    checks.append({
      "property_id": pid,
      "quick_cmd": f"{ENV} ./bin/verif check {pid} --tier quick",
      "thorough_cmd": f"{ENV} ./bin/verif check {pid} --tier thorough",
      "evidence_file": f"/verif/evidence/{pid}.json",
      "replay_cmd_template": f"{ENV} ./bin/verif replay {{path}}",
      "engine": "gosym",
      "level_claimed": {"category": "model_checking", "text": c["text"], "design_ref": c["ref"]},
      "level_note": c["note"],
      "technique": "solver-based bounded symbolic execution of the real Go code (go/ssa -> SMT bit-vectors, z3), counterexamples replayed natively",
    })
na = [{"property_id": k, "reason": v} for k, v in sorted(not_applicable.items())]
for p in pending:
    if p not in claimed and p not in not_applicable:
        na.append({"property_id": p, "reason": "check not built yet in this session (harness pending); not claimed until its bounds have run clean on the unchanged tree"})
m = {
 "version": 1,
 "setup_cmd": f"cd /verif/engine && {ENV} go build -o /verif/bin/verif .",
 "hooks": {"guard": "verif", "enable": "harnesses and the verifrt runtime are injected with go/packages Overlay and `go test -tags verif -overlay`; nothing under /repo is modified", "baseline_off_cmd": f"cd /repo && {ENV} go test -vet=off -count=1 -timeout 25m ./...", "source_commits": [], "add_only": True},
 "engines": [{"name": "gosym", "path": "/verif/engine", "serves_properties": sorted(claimed.keys()), "kind_free_text": "KLEE-style symbolic interpreter over go/ssa (x/tools v0.29.0) with SMT back end (z3 5.1 incremental; z3 4.8.12 / cvc5 portfolio), replay forking, native counterexample replay"}],
 "checks": checks,
 "not_applicable": sorted(na, key=lambda x: x["property_id"]),
 "notes": "Exit codes: 0 held within bounds, 1 VIOLATION (natively reproduced), 2 INCONCLUSIVE (solver unknown, unsupported instruction, harness does not build, witness mismatch). Fix commits in /repo are listed in known_findings.json as fixed entries.",
}
json.dump(m, open("/verif/MANIFEST.json", "w"), indent=1)
print("claimed:", sorted(claimed.keys()))
