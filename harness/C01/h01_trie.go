//go:build verif

// verif:package caskethttp/httpserver
package httpserver

import (
	"strings"

	"github.com/tmpim/casket/zzverif/verifrt"
)

type zzSite struct {
	host string // as written in the Casketfile (already lower-case: keys are normalised at load)
	path string
	cfg  *SiteConfig
}

func zzLabel(name string, alphabet string) string {
	s := verifrt.String(name, 1)
	ok := false
	for i := 0; i < len(alphabet); i++ {
		ok = ok || s[0] == alphabet[i]
	}
	verifrt.Assume(ok)
	return s
}

// zzSiteHost builds a site host: 1..2 one-byte labels over {a,b,*}, or one of the catch-all spellings.
func zzSiteHost(simple bool) string {
	if simple && verifrt.Tier() == 0 {
		// (the server-entry harness: host classes are the trie harness's subject)
		if verifrt.Bool("catchall") {
			return ""
		}
		return zzLabel("hl", "a*")
	}
	switch verifrt.Choose("hostkind", 5) {
	case 0:
		return zzLabel("hl", "ab*")
	case 1:
		return zzLabel("hl", "ab*") + "." + zzLabel("hl", "ab*")
	case 2:
		return ""
	case 3:
		return "0.0.0.0"
	default:
		return "[::]"
	}
}

// zzSitePath returns the path as written in the site address and the path prefix it stands for.
func zzSitePath(trailing bool) (written, norm string) {
	kinds := 3
	if trailing {
		kinds = 4
	}
	switch verifrt.Choose("pathkind", kinds) {
	case 0:
		return "", "/"
	case 1:
		return "/", "/"
	case 3:
		// a path written with a trailing slash claims what is inside it, not its siblings (/a/ vs /ab)
		p := "/" + zzLabel("pl", "ab") + "/"
		return p, p
	}
	p := "/" + zzLabel("pl", "ab/")
	return p, p
}

func zzSites(n int) []zzSite { return zzSitesWith(n, false) }

// zzSitesWith: trailing adds site paths written with a trailing slash already in the quick tier.
func zzSitesWith(n int, trailing bool) []zzSite {
	sites := make([]zzSite, n)
	for i := range sites {
		h := zzSiteHost(trailing)
		written, p := zzSitePath(trailing)
		// the site address as standardizeAddress leaves it: Original keeps the written text
		sites[i] = zzSite{host: h, path: p, cfg: &SiteConfig{Addr: Address{Original: h + written, Host: h, Path: written}}}
	}
	// documented precondition: InspectServerBlocks rejects duplicate site addresses
	for i := range sites {
		for j := 0; j < i; j++ {
			verifrt.Assume(!(sites[i].host == sites[j].host && sites[i].path == sites[j].path))
		}
	}
	return sites
}

func zzReqHost() (string, string) {
	var h string
	if verifrt.Bool("twolabels") {
		h = zzLabel("rl", "abA") + "." + zzLabel("rl", "abA")
	} else {
		h = zzLabel("rl", "abA")
	}
	raw := h
	if verifrt.Bool("port") {
		raw += ":8"
	}
	return raw, strings.ToLower(h)
}

func zzReqPath(max int) string {
	n := verifrt.IntRange("plen", 0, max)
	p := "/"
	for i := 0; i < n; i++ {
		p += zzLabel("rp", "ab/")
	}
	return p
}

// zzBestPath: among the sites of one host, the one with the longest path prefix of the request path.
func zzBestPath(sites []zzSite, host, path string) (*SiteConfig, string) {
	var best *zzSite
	for i := range sites {
		s := &sites[i]
		if s.host == host && strings.HasPrefix(path, s.path) {
			if best == nil || len(s.path) > len(best.path) {
				best = s
			}
		}
	}
	if best == nil {
		return nil, ""
	}
	return best.cfg, best.path
}

func zzHasHost(sites []zzSite, h string) bool {
	for _, s := range sites {
		if s.host == h {
			return true
		}
	}
	return false
}

// zzAcceptable is the statement of C01 over the list of sites (no trie): the host class is the
// exact name, else the wildcard pattern with the fewest leading wildcard labels, else a catch-all
// (0.0.0.0, [::], the empty host, a bare "*" as TestVHostTrieWildcard3 documents, or a designated
// fallback host); then, among that host's sites only, the longest path prefix. Where several
// catch-all hosts are configured the statement does not say which one is used, so any of them is
// accepted (order independence is H01b's job).
func zzAcceptable(sites []zzSite, fallbacks []string, host, path string, got *SiteConfig, prefix string) bool {
	if zzHasHost(sites, host) {
		w, wp := zzBestPath(sites, host, path)
		return got == w && prefix == wp
	}
	labels := strings.Split(host, ".")
	for i := range labels {
		labels[i] = "*"
		c := strings.Join(labels, ".")
		if zzHasHost(sites, c) {
			w, wp := zzBestPath(sites, c, path)
			return got == w && prefix == wp
		}
	}
	any := false
	for _, c := range append([]string{"0.0.0.0", "[::]", "", "*"}, fallbacks...) {
		if zzHasHost(sites, c) {
			any = true
			w, wp := zzBestPath(sites, c, path)
			if got == w && prefix == wp {
				return true
			}
		}
	}
	if !any {
		return got == nil && prefix == ""
	}
	return false
}

func zzNumSites() int { return 2 + verifrt.Tier() }

// VerifH01aTrieMatchesSpec: the trie returns exactly the site (and matched prefix) the statement names.
func VerifH01aTrieMatchesSpec() {
	n := verifrt.IntRange("nsites", 1, zzNumSites())
	sites := zzSites(n)
	trie := newVHostTrie()
	for _, s := range sites {
		trie.Insert(s.cfg.Addr.VHost(), s.cfg)
	}
	rawHost, host := zzReqHost()
	path := zzReqPath(2)
	got, prefix := trie.Match(rawHost + path)
	verifrt.Assert(zzAcceptable(sites, nil, host, path, got, prefix), "most-specific-site")
	idx := -1
	for i := range sites {
		if sites[i].cfg == got {
			idx = i
		}
	}
	verifrt.Observe("match", idx, prefix)
}

// VerifH01bOrderIndependent: the outcome never depends on declaration order.
func VerifH01bOrderIndependent() {
	n := verifrt.IntRange("nsites", 2, 2) // (three sites did not finish within 50 minutes together with the other harnesses)
	sites := zzSites(n)
	fwd, rev := newVHostTrie(), newVHostTrie()
	for _, s := range sites {
		fwd.Insert(s.cfg.Addr.VHost(), s.cfg)
	}
	// a different declaration order: rotate by a chosen amount and reverse
	rot := verifrt.IntRange("rot", 0, n-1)
	for k := n - 1; k >= 0; k-- {
		s := sites[(k+rot)%n]
		rev.Insert(s.cfg.Addr.VHost(), s.cfg)
	}
	rawHost, _ := zzReqHost()
	path := zzReqPath(2)
	a, ap := fwd.Match(rawHost + path)
	b, bp := rev.Match(rawHost + path)
	verifrt.Assert(a == b && ap == bp, "order-independent")
}
