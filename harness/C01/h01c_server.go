//go:build verif

// verif:package caskethttp/httpserver
package httpserver

import (
	"net/http"
	"net/url"
	"strings"

	"github.com/tmpim/casket/caskettls"
	"github.com/tmpim/casket/zzverif/verifrt"
)

type zzRW struct {
	hdr     http.Header
	status  int
	body    []byte
	commits int
}

func (w *zzRW) Header() http.Header {
	if w.hdr == nil {
		w.hdr = http.Header{}
	}
	return w.hdr
}
func (w *zzRW) WriteHeader(c int) {
	w.commits++
	if w.status == 0 {
		w.status = c
	}
}
func (w *zzRW) Write(p []byte) (int, error) {
	if w.status == 0 {
		w.WriteHeader(200)
	}
	w.body = append(w.body, p...)
	return len(p), nil
}

type zzSiteHandler struct {
	id   int
	ran  *[]int
	path *string
}

func (h zzSiteHandler) ServeHTTP(w http.ResponseWriter, r *http.Request) (int, error) {
	*h.ran = append(*h.ran, h.id)
	*h.path = r.URL.Path
	w.Write([]byte("site"))
	return 0, nil
}

// VerifH01cServerEntry: through the server's request entry point exactly one site's handlers run
// (the one the statement names) or the request is answered 404 (421 on HTTP/2) and no handler
// runs; the handler sees the request path with the site's path prefix trimmed.
func VerifH01cServerEntry() {
	n := verifrt.IntRange("nsites", 1, 2)
	sites := zzSitesWith(n, true)
	var ran []int
	var seenPath string
	group := make([]*SiteConfig, n)
	for i := range sites {
		i := i
		sites[i].cfg.TLS = &caskettls.Config{}
		sites[i].cfg.AddMiddleware(func(Handler) Handler { return zzSiteHandler{id: i, ran: &ran, path: &seenPath} })
		group[i] = sites[i].cfg
	}
	// the server as casket builds it for a listener
	s, err := NewServer(":80", group)
	if err != nil {
		verifrt.Fail("new-server")
		return
	}
	rawHost, host := zzReqHost()
	path := zzReqPath(2 + verifrt.Tier())
	// the client may spell the same path with percent-escapes
	rawPath := ""
	if verifrt.Bool("escaped-spelling") {
		for i := 0; i < len(path); i++ {
			switch path[i] {
			case 'a':
				rawPath += "%61"
			case 'b':
				rawPath += "%62"
			default:
				rawPath += "/"
			}
		}
	}
	// HTTP/1 or HTTP/2: a symbolic value, so paths divide only where the server looks at it
	pb := verifrt.Byte("proto")
	verifrt.Assume(pb == 1 || pb == 2)
	proto := int(pb)
	// a request target without a path (absolute-form "GET http://host", authority-form CONNECT)
	// reaches the server with an empty URL path; it addresses the root
	urlPath := path
	if path == "/" && rawPath == "" && verifrt.Bool("target-without-path") {
		urlPath = ""
	}
	r := &http.Request{Method: "GET", Host: rawHost, URL: &url.URL{Path: urlPath, RawPath: rawPath}, ProtoMajor: proto, Header: http.Header{}, RemoteAddr: "1.2.3.4:5"}
	w := &zzRW{}
	s.ServeHTTP(w, r)

	verifrt.Assert(len(ran) <= 1, "at-most-one-site")
	verifrt.Assert(w.commits == 1, "exactly-one-response")
	if len(ran) == 0 {
		want := 404
		if proto == 2 {
			want = 421
		}
		verifrt.Assert(w.status == want, "site-not-found-status")
		verifrt.Assert(zzAcceptable(sites, nil, host, path, nil, ""), "not-found-only-when-no-site-matches")
	} else {
		site := sites[ran[0]]
		verifrt.Assert(zzAcceptable(sites, nil, host, path, site.cfg, site.path), "most-specific-site-served")
		verifrt.Assert(w.status == 200, "site-response")
		if site.path == "/" {
			verifrt.Assert(seenPath == urlPath, "path-unchanged-for-root-site")
		} else if rawPath == "" && urlPath != "" && !strings.Contains(path, "//") {
			// (beyond the statement: what the handler sees. Left out for doubled slashes, where the
			// remainder "//x" is re-parsed as a URL and loses what looks like an authority)
			trimmed := strings.TrimPrefix(path, site.path)
			if !strings.HasPrefix(trimmed, "/") {
				trimmed = "/" + trimmed
			}
			verifrt.Assert(seenPath == trimmed, "site-prefix-trimmed")
		}
	}
	verifrt.Observe("srv", len(ran), w.status)
}
