//go:build verif

// verif:package caskethttp/browse
package browse

import (
	"io"
	"net/http"
	"net/url"
	"os"
	"strings"
	"text/template"

	"github.com/mholt/archiver/v3"
	"github.com/tmpim/casket/caskethttp/staticfiles"
	"github.com/tmpim/casket/zzverif/verifrt"
)

type zzClient struct {
	hdr    http.Header
	status int
	body   []byte
}

func (w *zzClient) Header() http.Header {
	if w.hdr == nil {
		w.hdr = http.Header{}
	}
	return w.hdr
}
func (w *zzClient) WriteHeader(c int) {
	if w.status == 0 {
		w.status = c
	}
}
func (w *zzClient) Write(p []byte) (int, error) {
	if w.status == 0 {
		w.status = 200
	}
	w.body = append(w.body, p...)
	return len(p), nil
}

type zzNext struct{ ran int }

func (n *zzNext) ServeHTTP(w http.ResponseWriter, r *http.Request) (int, error) {
	n.ran++
	return 0, nil
}

func zzIn(b byte, alphabet string) bool {
	ok := false
	for i := 0; i < len(alphabet); i++ {
		ok = ok || b == alphabet[i]
	}
	return ok
}

func zzSite() string {
	base := verifrt.FSRoot()
	root := base + "/site"
	verifrt.FSPut(root+"/a", []byte("A"))
	verifrt.FSPut(root+"/d/x", []byte("X"))
	verifrt.FSPut(root+"/d/h", []byte("H")) // hidden
	verifrt.FSPut(root+"/h2", []byte("H"))  // hidden
	verifrt.FSPut(base+"/o", []byte("O"))
	return root
}

// VerifH02aBrowseRedirect: the redirect browse issues for a directory without trailing slash stays
// on the same origin.
func VerifH02aBrowseRedirect() {
	root := zzSite()
	next := &zzNext{}
	b := Browse{Next: next, Configs: []Config{{PathScope: "/", Fs: staticfiles.FileServer{Root: http.Dir(root)}}}}
	if !verifrt.Symbolic() {
		b.Configs[0].Template = template.Must(template.New("listing").Parse("listing"))
	}
	n := verifrt.IntRange("plen", 0, 4+verifrt.Tier())
	s := verifrt.String("p", n)
	for i := 0; i < n; i++ {
		verifrt.Assume(zzIn(s[i], "/.\\d"))
	}
	p := "/" + s
	r := &http.Request{Method: "GET", URL: &url.URL{Path: p}, Header: http.Header{}, Host: "h"}
	w := &zzClient{}
	// rendering the listing needs text/template (reflection); the redirect decision is made before it
	verifrt.Stub("(github.com/tmpim/casket/caskethttp/browse.Browse).ServeListing",
		func(Browse, http.ResponseWriter, *http.Request, http.File, os.FileInfo, *Config) (int, error) { return 200, nil })
	status, _ := b.ServeHTTP(w, r)
	if status == 200 {
		status = 0 // natively the real listing is rendered; only redirects are compared
	}
	if loc := w.Header().Get("Location"); loc != "" {
		verifrt.Assert(loc[0] == '/' && (len(loc) == 1 || (loc[1] != '/' && loc[1] != '\\')), "redirect-stays-on-origin")
	}
	verifrt.Observe("browse", status == 301, w.Header().Get("Location"))
}

// VerifH02cListing: a directory listing never contains a hidden file.
func VerifH02cListing() {
	root := zzSite()
	fs := staticfiles.FileServer{Root: http.Dir(root), Hide: []string{"/d/h", "/h2"}}
	bc := Config{PathScope: "/", Fs: fs}
	b := Browse{Configs: []Config{bc}}
	dir := []string{"/", "/d/", "/d/../", "/./d/"}[verifrt.Choose("dir", 4)]
	f, err := fs.Root.Open(dir)
	if err != nil {
		verifrt.Fail("open-dir")
		return
	}
	listing, _, err := b.loadDirectoryContents(f, dir, &bc)
	if err != nil {
		verifrt.Fail("load-dir")
		return
	}
	names := ""
	for _, it := range listing.Items {
		verifrt.Assert(it.Name != "h" && it.Name != "h2", "hidden-file-not-listed")
		verifrt.Assert(!strings.Contains(it.URL, ".."), "item-url-inside-directory")
		names += it.Name + ","
	}
	verifrt.Assert(len(listing.Items) >= 1, "visible-files-listed")
	verifrt.Observe("listing", names)
}

// zzArchiveWriter stands in for the archive encoder (tar/zip/... from mholt/archiver) under the
// engine: it writes each member's name and bytes to the output, which is all the property is about
// (which files are in the archive). Natively the real tar writer runs; file bytes appear verbatim in
// a tar stream.
type zzArchiveWriter struct{ out io.Writer }

func (a *zzArchiveWriter) Create(out io.Writer) error { a.out = out; return nil }
func (a *zzArchiveWriter) Write(f archiver.File) error {
	io.WriteString(a.out, "<"+f.Name()+">")
	if f.ReadCloser != nil {
		b, err := io.ReadAll(f.ReadCloser)
		if err != nil {
			return err
		}
		a.out.Write(b)
	}
	return nil
}
func (a *zzArchiveWriter) Close() error { return nil }

// VerifH02dArchive: a directory archive (browse ?archive=tar) never contains a hidden file.
func VerifH02dArchive() {
	verifrt.Terminates()
	verifrt.Concurrent(-1)
	root := zzSite()
	linked := verifrt.Bool("link-to-a-hidden-file-in-the-tree")
	if linked {
		// a symbolic link inside the archived tree whose target is on the hide list
		verifrt.FSSymlink(root+"/d/l", root+"/h2")
	} else if !verifrt.Symbolic() {
		os.Remove(root + "/d/l") // (natively the vectors of one run share the directory)
	}
	fs := staticfiles.FileServer{Root: http.Dir(root), Hide: []string{"/d/h", "/h2"}}
	bc := Config{PathScope: "/", Fs: fs, ArchiveTypes: []ArchiveType{ArchiveTar}, BufferSize: 64}
	b := Browse{Next: &zzNext{}, Configs: []Config{bc}}
	verifrt.Stub("(github.com/tmpim/casket/caskethttp/browse.ArchiveType).GetWriter", func(ArchiveType) archiver.Writer { return &zzArchiveWriter{} })
	dir := []string{"/", "/d/", "/d/../", "/./d/"}[verifrt.Choose("dir", 4)]
	r := &http.Request{Method: "GET", URL: &url.URL{Path: dir, RawQuery: "archive=tar"}, Header: http.Header{}, Host: "h"}
	w := &zzClient{}
	status, _ := b.ServeHTTP(w, r)
	body := string(w.body)
	verifrt.Assert(!strings.Contains(body, "H"), "hidden-file-not-in-archive")
	verifrt.Assert(!strings.Contains(body, "O"), "nothing-outside-the-root-in-archive")
	verifrt.Assert(status != 0 || strings.Contains(body, "X"), "visible-files-in-archive")
	if linked {
		// (the real tar writer gives up on a symbolic link -- the archive ends there with an error --
		// while the recording stand-in carries on: only the property itself is compared for this input)
		verifrt.Observe("archive-with-link", strings.Contains(body, "H"))
	} else {
		verifrt.Observe("archive", status, w.status, strings.Contains(body, "X"))
	}
}
