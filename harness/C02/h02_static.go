//go:build verif

// verif:package caskethttp/staticfiles
package staticfiles

import (
	"context"
	"net/http"
	"net/url"
	"path"
	"strings"

	"github.com/tmpim/casket"
	"github.com/tmpim/casket/zzverif/verifrt"
)

type zzClient struct {
	hdr    http.Header
	status int
	body   []byte
}

func (w *zzClient) Header() http.Header {
	if w.hdr == nil {
		w.hdr = http.Header{}
	}
	return w.hdr
}
func (w *zzClient) WriteHeader(c int) {
	if w.status == 0 {
		w.status = c
	}
}
func (w *zzClient) Write(p []byte) (int, error) {
	if w.status == 0 {
		w.status = 200
	}
	w.body = append(w.body, p...)
	return len(p), nil
}

// zzSite lays out a site root with one-letter names and one-byte contents so that the body tells
// which file was served:
//
//	<root>/a "A"   <root>/a.gz "G"   <root>/a.zst "S"
//	<root>/d/ (directory)   <root>/d/i "I" (index page)   <root>/d/x "X"   <root>/d/i.gz "J"   <root>/d/.gz "Z"
//	<root>/h "H" (hidden: the Casketfile)   <root>/c "C"   <root>/c.gz "K" (hidden as well)
//	<root>/../o "O" (outside the root)
func zzSite() (root string) {
	base := verifrt.FSRoot()
	root = base + "/site"
	verifrt.FSPut(root+"/a", []byte("A"))
	verifrt.FSPut(root+"/a.gz", []byte("G"))
	verifrt.FSPut(root+"/a.zst", []byte("S"))
	verifrt.FSPut(root+"/d/i", []byte("I"))
	verifrt.FSPut(root+"/d/x", []byte("X"))
	verifrt.FSPut(root+"/d/i.gz", []byte("J")) // the index page's own precompressed sibling
	verifrt.FSPut(root+"/d/.gz", []byte("Z"))  // a file whose whole name is the sibling extension
	verifrt.FSPut(root+"/h", []byte("H"))
	verifrt.FSPut(root+"/c", []byte("C"))
	verifrt.FSPut(root+"/c.gz", []byte("K"))
	verifrt.FSPut(base+"/o", []byte("O"))
	return root
}

func zzIn(b byte, alphabet string) bool {
	ok := false
	for i := 0; i < len(alphabet); i++ {
		ok = ok || b == alphabet[i]
	}
	return ok
}

func zzReqPath(max int, alphabet string) string {
	n := verifrt.IntRange("plen", 0, max)
	s := verifrt.String("p", n)
	for i := 0; i < n; i++ {
		verifrt.Assume(zzIn(s[i], alphabet))
	}
	return "/" + s
}

// VerifH02bOnlyPermittedFiles: whatever the spelling of the request path, the body consists only of
// a regular, non-hidden file inside the root: the file the cleaned path names, its directory's
// index page, or a precompressed sibling the client accepts.
func VerifH02bOnlyPermittedFiles() {
	root := zzSite()
	fs := FileServer{Root: http.Dir(root), Hide: []string{"/h", "/c.gz"}, IndexPages: []string{"i"}}
	p := zzReqPath(4, "/.adhoc")
	accept := []string{"", "gzip", "zstd, gzip", "br", "gzip;q=0, identity", "zstd; q=0.0, gzip"}[verifrt.Choose("accept", 6)]
	method := []string{"GET", "HEAD"}[verifrt.Choose("method", 2)]
	r := &http.Request{Method: method, URL: &url.URL{Path: p}, Header: http.Header{}, Host: "h"}
	if accept != "" {
		r.Header.Set("Accept-Encoding", accept)
	}
	w := &zzClient{}
	status, _ := fs.ServeHTTP(w, r)

	body := string(w.body)
	verifrt.Assert(!strings.Contains(body, "H") && !strings.Contains(body, "K"), "hidden-file-never-returned")
	verifrt.Assert(!strings.Contains(body, "O"), "nothing-outside-the-root")
	clean := path.Clean("/" + p)
	if w.status == 200 && method == "GET" {
		var allowed []string
		switch clean {
		case "/a":
			allowed = []string{"A"}
			if zzOffers(accept, "gzip") {
				allowed = append(allowed, "G")
			}
			if zzOffers(accept, "zstd") {
				allowed = append(allowed, "S")
			}
		case "/d", "/d/i":
			allowed = []string{"I"}
			if zzOffers(accept, "gzip") {
				allowed = append(allowed, "J")
			}
		case "/d/x":
			allowed = []string{"X"}
		case "/c":
			allowed = []string{"C"}
		}
		ok := false
		for _, a := range allowed {
			ok = ok || body == a
		}
		verifrt.Assert(ok, "body-is-the-named-file-index-or-accepted-sibling")
		if enc := w.Header().Get("Content-Encoding"); enc != "" {
			verifrt.Assert(zzOffers(accept, enc), "sibling-coding-was-accepted")
		}
	}
	if loc := w.Header().Get("Location"); loc != "" {
		verifrt.Assert(len(loc) >= 1 && loc[0] == '/' && (len(loc) == 1 || (loc[1] != '/' && loc[1] != '\\')), "redirect-stays-on-origin")
	}
	verifrt.Observe("static", status, w.status, body)
}

// VerifH02aRedirects: every redirect the static file server issues stays on the same origin.
func VerifH02aRedirects() {
	root := zzSite()
	fs := FileServer{Root: http.Dir(root), IndexPages: []string{"i"}}
	p := zzReqPath(4+verifrt.Tier(), "/.\\ad")
	r := &http.Request{Method: "GET", URL: &url.URL{Path: p}, Header: http.Header{}, Host: "h"}
	// the site's path prefix as Server.serveHTTP records it: absent (handler used directly), "/" (a
	// site defined without a path -- the normal case) or a real prefix
	switch verifrt.Choose("path-prefix", 3) {
	case 1:
		r = r.WithContext(context.WithValue(r.Context(), casket.CtxKey("path_prefix"), "/"))
	case 2:
		r = r.WithContext(context.WithValue(r.Context(), casket.CtxKey("path_prefix"), "/s"))
	}
	w := &zzClient{}
	fs.ServeHTTP(w, r)
	if loc := w.Header().Get("Location"); loc != "" {
		verifrt.Assert(loc[0] == '/' && (len(loc) == 1 || (loc[1] != '/' && loc[1] != '\\')), "redirect-stays-on-origin")
	}
	verifrt.Observe("redir", w.status, w.Header().Get("Location"))
}

// VerifH02bHiddenIndexPage: a hidden file that is also its directory's index page is not returned
// for any spelling of the directory or of the file itself.
func VerifH02bHiddenIndexPage() {
	root := zzSite()
	fs := FileServer{Root: http.Dir(root), Hide: []string{"/d/i"}, IndexPages: []string{"i"}}
	p := zzReqPath(4, "/.di")
	method := []string{"GET", "HEAD"}[verifrt.Choose("method", 2)]
	r := &http.Request{Method: method, URL: &url.URL{Path: p}, Header: http.Header{}, Host: "h"}
	w := &zzClient{}
	status, _ := fs.ServeHTTP(w, r)
	verifrt.Assert(!strings.Contains(string(w.body), "I"), "hidden-index-page-never-returned")
	verifrt.Observe("hidden-index", status, w.status)
}

// zzOffers: the Accept-Encoding list names the coding with a non-zero quality (RFC 7231 §5.3.4).
func zzOffers(accept, coding string) bool {
	for _, item := range strings.Split(accept, ",") {
		parts := strings.Split(strings.TrimSpace(item), ";")
		if strings.TrimSpace(parts[0]) != coding {
			continue
		}
		zero := false
		for _, prm := range parts[1:] {
			prm = strings.ReplaceAll(prm, " ", "")
			zero = zero || prm == "q=0" || prm == "q=0.0" || prm == "q=0.00" || prm == "q=0.000"
		}
		if !zero {
			return true
		}
	}
	return false
}
