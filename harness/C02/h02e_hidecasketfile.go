//go:build verif

// verif:package caskethttp/httpserver
package httpserver

import (
	"net/http"
	"net/url"
	"os"
	"strings"

	"github.com/tmpim/casket/caskethttp/staticfiles"
	"github.com/tmpim/casket/zzverif/verifrt"
)

type zzW02 struct {
	hdr    http.Header
	status int
	body   []byte
}

func (w *zzW02) Header() http.Header {
	if w.hdr == nil {
		w.hdr = http.Header{}
	}
	return w.hdr
}
func (w *zzW02) WriteHeader(c int) {
	if w.status == 0 {
		w.status = c
	}
}
func (w *zzW02) Write(p []byte) (int, error) {
	if w.status == 0 {
		w.status = 200
	}
	w.body = append(w.body, p...)
	return len(p), nil
}

// VerifH02eHideCasketfile: the Casketfile a site was loaded from is put on the site's hide list
// whenever it can be reached under the site root -- as a regular file in the root or in a
// sub-directory, or as a symbolic link in the root pointing outside it -- so that no spelling of its
// path returns the configuration. (hideCasketfile decides the hide list; the real file server
// enforces it over the in-memory file system, which knows symbolic links.)
func VerifH02eHideCasketfile() {
	base := verifrt.FSRoot()
	root := base + "/www"
	if !verifrt.Symbolic() {
		// natively the vectors of one run share a directory: start from an empty one
		os.RemoveAll(root)
		os.RemoveAll(base + "/etc")
	}
	verifrt.FSPut(root+"/index.html", []byte("I"))
	origin := root + "/Casketfile"
	switch verifrt.Choose("layout", 4) {
	case 0: // a regular file in the root
		verifrt.FSPut(root+"/Casketfile", []byte("CFG"))
	case 1: // in a sub-directory of the root
		origin = root + "/conf/Casketfile"
		verifrt.FSPut(origin, []byte("CFG"))
	case 2: // in the root, as a symbolic link to a file kept elsewhere
		verifrt.FSPut(base+"/etc/site.conf", []byte("CFG"))
		verifrt.FSSymlink(root+"/Casketfile", base+"/etc/site.conf")
	default: // outside the root: nothing to hide, nothing reachable
		origin = base + "/etc/Casketfile"
		verifrt.FSPut(origin, []byte("CFG"))
	}
	cfg := &SiteConfig{Root: root, originCasketfile: origin}
	ctx := &httpContext{siteConfigs: []*SiteConfig{cfg}, keysToSiteConfigs: map[string]*SiteConfig{}}
	if err := hideCasketfile(ctx); err != nil {
		verifrt.Fail("hide-casketfile")
		return
	}
	fs := staticfiles.FileServer{Root: http.Dir(root), Hide: cfg.HiddenFiles}
	p := []string{"/Casketfile", "/conf/Casketfile", "//Casketfile", "/./conf/../Casketfile", "/conf/./Casketfile", "/index.html"}[verifrt.Choose("request", 6)]
	r := &http.Request{Method: "GET", URL: &url.URL{Path: p}, Header: http.Header{}, Host: "h"}
	w := &zzW02{}
	fs.ServeHTTP(w, r)
	verifrt.Assert(!strings.Contains(string(w.body), "CFG"), "the-casketfile-is-never-returned")
	verifrt.Observe("hide", w.status, len(cfg.HiddenFiles))
}
