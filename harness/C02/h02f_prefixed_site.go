//go:build verif

// verif:package caskethttp/httpserver
package httpserver

import (
	"net/http"
	"net/url"
	"os"
	"strings"

	"github.com/caddyserver/certmagic"
	"github.com/tmpim/casket/caskettls"
	"github.com/tmpim/casket/zzverif/verifrt"
)

// VerifH02fPrefixedSiteRedirect: a site defined with a path (host/s) has that prefix taken off
// the request before the file server sees it. Whatever follows the prefix -- doubled slashes and
// dot segments included -- a redirect the site answers with stays on the site's own origin, and
// a body is only ever a file of the site.
func VerifH02fPrefixedSiteRedirect() {
	base := verifrt.FSRoot()
	root := base + "/www"
	if !verifrt.Symbolic() {
		os.RemoveAll(root)
	}
	verifrt.FSPut(root+"/index.html", []byte("I"))
	verifrt.FSPut(root+"/d/index.html", []byte("D"))
	verifrt.FSPut(base+"/outside", []byte("OUT"))
	prefix := []string{"/s", "/s/"}[verifrt.Choose("site-path", 2)]
	cfg := &SiteConfig{Addr: Address{Original: "h" + prefix, Host: "h", Path: prefix}, Root: root, TLS: &caskettls.Config{Manager: &certmagic.Config{}}}
	s, err := NewServer(":80", []*SiteConfig{cfg})
	if err != nil {
		verifrt.Fail("new-server")
		return
	}
	n := verifrt.IntRange("len", 0, 3+verifrt.Tier()) // 5 bytes over 5 characters took 15 minutes (1.5 M solver calls in url parsing)
	tail := verifrt.String("tail", n)
	for i := 0; i < n; i++ {
		c := tail[i]
		verifrt.Assume(c == '/' || c == '.' || c == 'd')
	}
	p := "/s/" + tail
	r := &http.Request{Method: "GET", Host: "h", URL: &url.URL{Path: p}, ProtoMajor: 1, Proto: "HTTP/1.1", Header: http.Header{}, RemoteAddr: "1.2.3.4:5", RequestURI: p}
	w := &zzW02{}
	s.ServeHTTP(w, r)
	if loc := w.Header().Get("Location"); loc != "" {
		u, err := url.Parse(loc)
		verifrt.Assert(err == nil && u.Scheme == "" && u.Host == "" && strings.HasPrefix(loc, "/") && !strings.HasPrefix(loc, "//") && !strings.HasPrefix(loc, "/\\"), "redirect-stays-on-origin")
	}
	verifrt.Assert(!strings.Contains(string(w.body), "OUT"), "body-is-a-file-of-the-site")
	verifrt.Observe("resp", w.status, w.Header().Get("Location"))
}
