//go:build verif

// verif:package caskethttp/httpserver
package httpserver

import (
	"path"
	"strings"

	"github.com/tmpim/casket/zzverif/verifrt"
)

func zzIn(b byte, alphabet string) bool {
	ok := false
	for i := 0; i < len(alphabet); i++ {
		ok = ok || b == alphabet[i]
	}
	return ok
}

// VerifH03aMatcherCoversResolver: whatever spelling of the request path a file-backed handler
// resolves (http.Dir opens path.Clean("/"+p)) to something under a protected base, the rule
// matcher used by basicauth/internal also matches it.
func VerifH03aMatcherCoversResolver() {
	pmax, bmax := 4, 2
	if verifrt.Tier() > 0 {
		pmax, bmax = 5, 3
	}
	pn := verifrt.IntRange("plen", 0, pmax)
	p := "/" + verifrt.String("p", pn) // origin-form request targets start with '/'
	for i := 1; i < len(p); i++ {
		verifrt.Assume(zzIn(p[i], "/.aA\\%:"))
	}
	bn := verifrt.IntRange("blen", 0, bmax)
	b := "/" + verifrt.String("b", bn) // rule paths start with '/'
	for i := 1; i < len(b); i++ {
		verifrt.Assume(zzIn(b[i], "/.aA"))
	}
	CaseSensitivePath = verifrt.Bool("casesensitive")
	R := path.Clean("/" + p)
	B := path.Clean(b)
	under := B == "/" || strings.HasPrefix(R, B+"/") || (R == B && !strings.HasSuffix(b, "/"))
	m := Path(p).Matches(b)
	verifrt.Assert(!under || m, "protected-path-matched")
	verifrt.Observe("m", m, under)
}

// VerifH03aTraversal: an adversarial first segment followed by a dot-dot step back into the
// protected tree: the resolver lands under the base, so the matcher must match.
func VerifH03aTraversal() {
	n := verifrt.IntRange("seglen", 0, 3+verifrt.Tier())
	seg := verifrt.String("seg", n)
	for i := 0; i < n; i++ {
		verifrt.Assume(zzIn(seg[i], "/.aA\\%:"))
	}
	p := "/" + seg + "/../a/x"
	CaseSensitivePath = verifrt.Bool("casesensitive")
	R := path.Clean("/" + p)
	under := strings.HasPrefix(R, "/a/") || R == "/a"
	m := Path(p).Matches("/a")
	verifrt.Assert(!under || m, "protected-path-matched")
	verifrt.Observe("m", m, under)
}
