//go:build verif

// verif:package caskethttp/basicauth
package basicauth

import (
	"net/http"
	"net/url"
	"path"
	"strings"

	"github.com/tmpim/casket/caskethttp/httpserver"
	"github.com/tmpim/casket/zzverif/verifrt"
)

type zzWriter struct {
	hdr    http.Header
	status int
	body   []byte
}

func (w *zzWriter) Header() http.Header {
	if w.hdr == nil {
		w.hdr = http.Header{}
	}
	return w.hdr
}
func (w *zzWriter) Write(p []byte) (int, error) {
	if w.status == 0 {
		w.status = 200
	}
	w.body = append(w.body, p...)
	return len(p), nil
}
func (w *zzWriter) WriteHeader(c int) {
	if w.status == 0 {
		w.status = c
	}
}

type zzNext struct {
	ran  int
	path string
}

func (n *zzNext) ServeHTTP(w http.ResponseWriter, r *http.Request) (int, error) {
	n.ran++
	n.path = r.URL.Path
	w.Write([]byte("secret"))
	return 0, nil
}

func zzIn(b byte, alphabet string) bool {
	ok := false
	for i := 0; i < len(alphabet); i++ {
		ok = ok || b == alphabet[i]
	}
	return ok
}

func zzFold(s string, sensitive bool) string {
	if sensitive {
		return s
	}
	return strings.ToLower(s)
}

// zzUnder: the resource the cleaned request path names lies under base (or is base itself).
func zzUnder(R, base string, sensitive bool) bool {
	B := path.Clean(base)
	R, B = zzFold(R, sensitive), zzFold(B, sensitive)
	return B == "/" || R == B || strings.HasPrefix(R, B+"/")
}

// VerifH03bBasicAuthGate: without valid credentials the next handler never runs for a path that
// resolves under a protected resource and outside its excludes (OPTIONS is the documented
// pass-through); with valid credentials it runs with the same path.
func VerifH03bBasicAuthGate() {
	pn := verifrt.IntRange("plen", 0, 3+verifrt.Tier())
	p := "/" + verifrt.String("p", pn)
	for i := 1; i < len(p); i++ {
		verifrt.Assume(zzIn(p[i], "/.abA"))
	}
	res := []string{"/a", "/a/", "/"}[verifrt.Choose("resource", 3)]
	var excl []string
	if verifrt.Bool("exclude") {
		excl = []string{[]string{"/a/b", "/a/b/"}[verifrt.Choose("excl", 2)]}
	}
	sensitive := verifrt.Bool("casesensitive")
	httpserver.CaseSensitivePath = sensitive
	rule := Rule{Username: "u", Password: func(pw string) bool { return pw == "pw" }, Resources: []string{res}, Exclude: excl}
	next := &zzNext{}
	rules := []Rule{rule}
	// optionally a second rule (other credentials) protecting a path nested inside the first rule's exclude
	res2 := ""
	if verifrt.Bool("second-rule") {
		res2 = "/a/b/a"
		rules = append(rules, Rule{Username: "v", Password: func(pw string) bool { return pw == "pw2" }, Resources: []string{res2}})
	}
	a := BasicAuth{Next: next, Rules: rules}
	method := "GET"
	if verifrt.Bool("options") {
		method = "OPTIONS"
	}
	r := &http.Request{Method: method, URL: &url.URL{Path: p}, Header: http.Header{}, Host: "h", RemoteAddr: "1.2.3.4:5", Proto: "HTTP/1.1", RequestURI: p}
	creds := verifrt.Choose("creds", 3) // 0 absent, 1 wrong, 2 right
	switch creds {
	case 1:
		r.SetBasicAuth("u", "bad")
	case 2:
		r.SetBasicAuth("u", "pw")
	}
	w := &zzWriter{}
	status, _ := a.ServeHTTP(w, r)

	R := path.Clean("/" + p)
	// a base written with a trailing slash protects what is inside it; the directory itself only
	// ever yields a redirect, so it is not required to be gated
	inside := func(base string) bool {
		B := path.Clean(base)
		Rf, Bf := zzFold(R, sensitive), zzFold(B, sensitive)
		if strings.HasSuffix(base, "/") && base != "/" {
			return strings.HasPrefix(Rf, Bf+"/")
		}
		return Bf == "/" || Rf == Bf || strings.HasPrefix(Rf, Bf+"/")
	}
	protected := inside(res)
	excluded := false
	for _, e := range excl {
		// casket's rule paths are prefix matches by design (basicauth /a also covers /ab): an exclude
		// /a/b therefore also takes /a/ba out of the protected area. The statement speaks of "excluded
		// sub-paths" without fixing the matching rule, so the oracle uses the product's own: the
		// cleaned request path begins with the cleaned exclude.
		if strings.HasPrefix(zzFold(R, sensitive), zzFold(path.Clean(e), sensitive)) {
			excluded = true
		}
	}
	if next.ran > 0 && method != "OPTIONS" && creds != 2 {
		verifrt.Assert(!protected || excluded, "no-content-without-credentials")
	}
	if res2 != "" && next.ran > 0 && method != "OPTIONS" {
		// the request carries at most the first rule's credentials: the second rule's resource stays closed
		verifrt.Assert(!inside(res2), "exclude-of-one-rule-does-not-open-another")
	}
	if next.ran == 0 {
		verifrt.Assert(status == 401 && len(w.body) == 0, "refusal-is-401-without-body")
	}
	if (creds == 2 && !(res2 != "" && inside(res2))) || method == "OPTIONS" {
		verifrt.Assert(next.ran == 1 && next.path == p, "served-normally-with-credentials")
	}
	verifrt.Assert(next.ran <= 1, "next-runs-once")
	verifrt.Observe("gate", next.ran, status)
}

// VerifH03bTwoRules: an exclude of one rule never opens what another rule protects.
func VerifH03bTwoRules() {
	n := verifrt.IntRange("taillen", 0, 2)
	tail := verifrt.String("tail", n)
	for i := 0; i < n; i++ {
		verifrt.Assume(zzIn(tail[i], "/.ab"))
	}
	p := "/a/b/" + tail
	sensitive := verifrt.Bool("casesensitive")
	httpserver.CaseSensitivePath = sensitive
	r1 := Rule{Username: "u", Password: func(pw string) bool { return pw == "pw" }, Resources: []string{"/a"}, Exclude: []string{"/a/b"}}
	r2 := Rule{Username: "v", Password: func(pw string) bool { return pw == "pw2" }, Resources: []string{"/a/b/a"}}
	rules := []Rule{r1, r2}
	if verifrt.Bool("swap") {
		rules = []Rule{r2, r1}
	}
	next := &zzNext{}
	a := BasicAuth{Next: next, Rules: rules}
	r := &http.Request{Method: "GET", URL: &url.URL{Path: p}, Header: http.Header{}, Host: "h", RemoteAddr: "1.2.3.4:5", Proto: "HTTP/1.1", RequestURI: p}
	creds := verifrt.Choose("creds", 3) // 0 absent, 1 first rule's, 2 second rule's
	switch creds {
	case 1:
		r.SetBasicAuth("u", "pw")
	case 2:
		r.SetBasicAuth("v", "pw2")
	}
	w := &zzWriter{}
	a.ServeHTTP(w, r)
	R := path.Clean("/" + p)
	if zzUnder(R, "/a/b/a", sensitive) && creds != 2 {
		verifrt.Assert(next.ran == 0, "second-rule-still-protects-inside-first-rules-exclude")
	}
	if creds == 2 && zzUnder(R, "/a/b/a", sensitive) {
		verifrt.Assert(next.ran == 1, "served-with-the-right-credentials")
	}
	verifrt.Observe("two", next.ran)
}
