//go:build verif

// verif:package caskethttp/internalsrv
package internalsrv

import (
	"net/http"
	"net/url"
	"path"
	"strings"

	"github.com/tmpim/casket/caskethttp/httpserver"
	"github.com/tmpim/casket/zzverif/verifrt"
)

type zzWriter struct {
	hdr    http.Header
	status int
	body   []byte
}

func (w *zzWriter) Header() http.Header {
	if w.hdr == nil {
		w.hdr = http.Header{}
	}
	return w.hdr
}
func (w *zzWriter) Write(p []byte) (int, error) { w.body = append(w.body, p...); return len(p), nil }
func (w *zzWriter) WriteHeader(c int)           { w.status = c }

type zzNext struct{ ran int }

func (n *zzNext) ServeHTTP(w http.ResponseWriter, r *http.Request) (int, error) {
	n.ran++
	w.Write([]byte("internal-content"))
	return 0, nil
}

func zzIn(b byte, alphabet string) bool {
	ok := false
	for i := 0; i < len(alphabet); i++ {
		ok = ok || b == alphabet[i]
	}
	return ok
}

// VerifH03bInternalGate: a request whose path resolves under an internal path never reaches the
// content handlers, whatever its spelling.
func VerifH03bInternalGate() {
	pn := verifrt.IntRange("plen", 0, 4+verifrt.Tier())
	p := "/" + verifrt.String("p", pn)
	for i := 1; i < len(p); i++ {
		verifrt.Assume(zzIn(p[i], "/.aA\\"))
	}
	base := []string{"/a", "/a/"}[verifrt.Choose("base", 2)]
	sensitive := verifrt.Bool("casesensitive")
	httpserver.CaseSensitivePath = sensitive
	next := &zzNext{}
	h := Internal{Next: next, Paths: []string{base}}
	r := &http.Request{Method: "GET", URL: &url.URL{Path: p}, Header: http.Header{}}
	w := &zzWriter{}
	status, _ := h.ServeHTTP(w, r)
	R := path.Clean("/" + p)
	B := path.Clean(base)
	fold := func(s string) string {
		if sensitive {
			return s
		}
		return strings.ToLower(s)
	}
	inside := strings.HasPrefix(fold(R), fold(B)+"/") || (fold(R) == fold(B) && !strings.HasSuffix(base, "/"))
	if inside {
		verifrt.Assert(next.ran == 0 && status == 404 && len(w.body) == 0, "internal-path-not-served")
	}
	verifrt.Observe("int", next.ran, status)
}
