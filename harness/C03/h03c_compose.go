//go:build verif

// verif:package caskethttp
package caskethttp

import (
	"context"
	"io"
	"net/http"
	"net/url"
	"strings"

	"github.com/mholt/archiver/v3"
	"github.com/tmpim/casket/caskethttp/basicauth"
	"github.com/tmpim/casket/caskethttp/browse"
	"github.com/tmpim/casket/caskethttp/extensions"
	"github.com/tmpim/casket/caskethttp/httpserver"
	"github.com/tmpim/casket/caskethttp/internalsrv"
	"github.com/tmpim/casket/caskethttp/staticfiles"
	tryfiles "github.com/tmpim/casket/caskethttp/tryfiles" // (the package clause there says "browse")
	"github.com/tmpim/casket/zzverif/verifrt"
)

type zzW03 struct {
	hdr    http.Header
	status int
	body   []byte
}

func (w *zzW03) Header() http.Header {
	if w.hdr == nil {
		w.hdr = http.Header{}
	}
	return w.hdr
}
func (w *zzW03) WriteHeader(c int) {
	if w.status == 0 {
		w.status = c
	}
}
func (w *zzW03) Write(p []byte) (int, error) {
	if w.status == 0 {
		w.status = 200
	}
	w.body = append(w.body, p...)
	return len(p), nil
}

// VerifH03cComposition: a path-rewriting directive in front of the gate (in casket's fixed order
// tryfiles and ext run before basicauth and internal) never lets a request without credentials reach
// content under the protected path. The chain is the real one: tryfiles/ext -> gate -> static file
// server over an in-memory site; the site may be defined with a path ("host/a"), in which case the
// server has already trimmed that prefix from the URL and tryfiles trims it from {path}.
//
//	<root>/s/p "P"  <root>/s/q.html "Q"   (under the protected /s)
//	<root>/t "T"    <root>/index.html "I" (public)
func VerifH03cComposition() {
	base := verifrt.FSRoot()
	root := base + "/site"
	verifrt.FSPut(root+"/s/p", []byte("P"))
	verifrt.FSPut(root+"/s/q.html", []byte("Q"))
	verifrt.FSPut(root+"/t", []byte("T"))
	verifrt.FSPut(root+"/index.html", []byte("I"))

	sitePath := []string{"/", "/a"}[verifrt.Choose("site-path", 2)]
	n := verifrt.IntRange("plen", 0, 4+verifrt.Tier())
	tail := verifrt.String("p", n)
	for i := 0; i < n; i++ {
		c := tail[i]
		verifrt.Assume(c == '/' || c == '.' || c == 'a' || c == 's' || c == 'p' || c == 'q')
	}
	orig := "/" + tail
	if sitePath != "/" {
		// the virtual-host lookup routed the request to this site: its path starts with the site path
		verifrt.Assume(strings.HasPrefix(orig, sitePath))
	}
	// what Server.serveHTTP hands to the middleware chain (trimPathPrefix, for a path without escapes)
	trimmed := orig
	if sitePath != "/" {
		trimmed = strings.TrimPrefix(orig, sitePath)
		if !strings.HasPrefix(trimmed, "/") {
			trimmed = "/" + trimmed
		}
	}

	fsrv := staticfiles.FileServer{Root: http.Dir(root), IndexPages: []string{"index.html"}}
	var gate httpserver.Handler
	creds := false
	switch verifrt.Choose("gate", 2) {
	case 0:
		gate = basicauth.BasicAuth{Next: fsrv, SiteRoot: root, Rules: []basicauth.Rule{{Username: "u", Password: func(pw string) bool { return pw == "pw" },
			Resources: []string{"/s"}}}}
		creds = verifrt.Bool("valid-credentials")
	default:
		gate = internalsrv.Internal{Next: fsrv, Paths: []string{"/s"}}
	}
	var chain httpserver.Handler
	switch verifrt.Choose("front", 3) {
	case 0:
		chain = gate
	case 1:
		// tryfiles with its defaults: "{path} <index pages>", `without` = the site's path
		cfg := &tryfiles.Config{To: "{path} index.html", Except: []string{"/.well-known"}, Without: sitePath}
		if cfg.Without == "/" {
			cfg.Without = ""
		}
		chain = &tryfiles.TryFiles{Next: gate, FileSys: http.Dir(root), Config: cfg}
	default:
		chain = extensions.Ext{Next: gate, Root: root, Extensions: []string{".html"}}
	}

	u := &url.URL{Path: trimmed}
	r := &http.Request{Method: "GET", URL: u, Header: http.Header{}, Host: "h", Proto: "HTTP/1.1", ProtoMajor: 1, ProtoMinor: 1}
	if creds {
		r.SetBasicAuth("u", "pw")
	}
	r = r.WithContext(context.WithValue(r.Context(), httpserver.OriginalURLCtxKey, url.URL{Path: orig}))
	w := &zzW03{}
	status, _ := chain.ServeHTTP(w, r)
	body := string(w.body)
	if !creds {
		verifrt.Assert(!strings.Contains(body, "P") && !strings.Contains(body, "Q"), "protected-content-not-disclosed")
	}
	verifrt.Observe("compose", status, w.status, body)
}

// zzArchive03 stands in for the archive encoder under the engine (member names and bytes, verbatim).
type zzArchive03 struct{ out io.Writer }

func (a *zzArchive03) Create(out io.Writer) error { a.out = out; return nil }
func (a *zzArchive03) Write(f archiver.File) error {
	io.WriteString(a.out, "<"+f.Name()+">")
	if f.ReadCloser != nil {
		b, err := io.ReadAll(f.ReadCloser)
		if err != nil {
			return err
		}
		a.out.Write(b)
	}
	return nil
}
func (a *zzArchive03) Close() error { return nil }

// VerifH03dArchiveBehindGate: browse with archives enabled behind the gate: a request without
// credentials for an archive of any directory never receives the bytes of a file under the protected
// path.
func VerifH03dArchiveBehindGate() {
	verifrt.Terminates()
	verifrt.Concurrent(-1)
	base := verifrt.FSRoot()
	root := base + "/site"
	verifrt.FSPut(root+"/s/p", []byte("#SECRET#")) // (a marker that no redirect page or archive header contains)
	verifrt.FSPut(root+"/t", []byte("T"))
	verifrt.FSPut(root+"/d/x", []byte("X"))
	fsrv := staticfiles.FileServer{Root: http.Dir(root)}
	verifrt.Stub("(github.com/tmpim/casket/caskethttp/browse.ArchiveType).GetWriter", func(browse.ArchiveType) archiver.Writer { return &zzArchive03{} })
	br := browse.Browse{Next: fsrv, Configs: []browse.Config{{PathScope: "/", Fs: fsrv, ArchiveTypes: []browse.ArchiveType{browse.ArchiveTar}, BufferSize: 64}}}
	var gate httpserver.Handler
	// the rule may be written with a trailing slash ("what is inside /s/")
	res := []string{"/s", "/s/"}[verifrt.Choose("rule-spelling", 2)]
	if verifrt.Choose("gate", 2) == 0 {
		gate = basicauth.BasicAuth{Next: br, SiteRoot: root, Rules: []basicauth.Rule{{Username: "u", Password: func(pw string) bool { return pw == "pw" }, Resources: []string{res}}}}
	} else {
		gate = internalsrv.Internal{Next: br, Paths: []string{res}}
	}
	dir := []string{"/", "/s/", "/d/", "/d/../", "/s/../", "/s", "/d/../s"}[verifrt.Choose("dir", 7)]
	if dir == "/" || dir == "/d/../" || dir == "/s/../" {
		// the archive of a directory that CONTAINS the protected one: the input class of the recorded known finding
		verifrt.Tag("archive-of-an-ancestor-of-the-protected-directory")
	}
	r := &http.Request{Method: "GET", URL: &url.URL{Path: dir, RawQuery: "archive=tar"}, Header: http.Header{}, Host: "h", Proto: "HTTP/1.1", ProtoMajor: 1, ProtoMinor: 1}
	r = r.WithContext(context.WithValue(r.Context(), httpserver.OriginalURLCtxKey, *r.URL))
	w := &zzW03{}
	status, _ := gate.ServeHTTP(w, r)
	verifrt.Assert(!strings.Contains(string(w.body), "#SECRET#"), "protected-content-not-in-archive")
	verifrt.Observe("archive", status, w.status, strings.Contains(string(w.body), "X"))
}
