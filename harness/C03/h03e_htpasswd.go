//go:build verif

// verif:package caskethttp/basicauth
package basicauth

import (
	"github.com/tmpim/casket/zzverif/verifrt"
)

// VerifH03eHtpasswdPerSite: the credentials a site accepts are those of the htpasswd file under ITS
// root: two sites (different roots) that name their file alike do not see each other's users, in
// either setup order.
func VerifH03eHtpasswdPerSite() {
	htpasswords = nil // a fresh process (natively several vectors share one)
	base := verifrt.FSRoot()
	rootA, rootB := base+"/siteA", base+"/siteB"
	verifrt.FSPut(rootA+"/pw", []byte("ua:{SHA}qUqP5cyxm6YcTAhz05Hph5gvu9M=\n"))
	verifrt.FSPut(rootB+"/pw", []byte("ub:{SHA}qUqP5cyxm6YcTAhz05Hph5gvu9M=\n"))
	first, second := rootA, rootB
	u1, u2 := "ua", "ub"
	if verifrt.Bool("b-first") {
		first, second, u1, u2 = rootB, rootA, "ub", "ua"
	}
	m1, err1 := GetHtpasswdMatcher("pw", u1, first)
	verifrt.Assert(err1 == nil && m1 != nil, "own-user-found")
	m2, err2 := GetHtpasswdMatcher("pw", u2, second)
	verifrt.Assert(err2 == nil && m2 != nil, "own-user-found-on-the-site-set-up-second")
	_, err3 := GetHtpasswdMatcher("pw", u1, second)
	verifrt.Assert(err3 != nil, "other-sites-user-unknown")
	_, err4 := GetHtpasswdMatcher("pw", u2, first)
	verifrt.Assert(err4 != nil, "other-sites-user-unknown")
}
