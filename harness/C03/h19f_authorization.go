//go:build verif

// verif:package caskethttp/basicauth
package basicauth

import (
	"net/http"
	"net/url"
	"strings"

	"github.com/tmpim/casket/zzverif/verifrt"
)

type zz19Writer struct {
	hdr    http.Header
	status int
	body   []byte
}

func (w *zz19Writer) Header() http.Header {
	if w.hdr == nil {
		w.hdr = http.Header{}
	}
	return w.hdr
}
func (w *zz19Writer) Write(p []byte) (int, error) {
	if w.status == 0 {
		w.status = 200
	}
	w.body = append(w.body, p...)
	return len(p), nil
}
func (w *zz19Writer) WriteHeader(c int) {
	if w.status == 0 {
		w.status = c
	}
}

type zz19Next struct{ ran int }

func (n *zz19Next) ServeHTTP(w http.ResponseWriter, r *http.Request) (int, error) {
	n.ran++
	w.Write([]byte("secret"))
	return 0, nil
}

// VerifH19fAuthorization: whatever bytes a client puts into the Authorization header, the gate
// neither crashes nor opens: the protected handler runs exactly when the header spells the
// configured user and password, and the refusal (whose message quotes the decoded user name) is a
// plain 401.
func VerifH19fAuthorization() {
	prefix := []string{"Basic ", "basic ", "BASIC ", "Basic", "Bearer ", ""}[verifrt.Choose("scheme", 6)]
	n := verifrt.IntRange("len", 0, 4+verifrt.Tier())
	cred := verifrt.String("cred", n)
	for i := 0; i < n; i++ {
		// a header value cannot carry CR or LF (the decoder would skip them)
		verifrt.Assume(cred[i] != '\r' && cred[i] != '\n')
	}
	next := &zz19Next{}
	a := BasicAuth{Next: next, Rules: []Rule{{Username: "u", Password: func(pw string) bool { return pw == "p" }, Resources: []string{"/"}}}}
	r := &http.Request{Method: "GET", URL: &url.URL{Path: "/x"}, Header: http.Header{}, Host: "h", RemoteAddr: "1.2.3.4:5", Proto: "HTTP/1.1", RequestURI: "/x"}
	if verifrt.Bool("header-present") {
		r.Header.Set("Authorization", prefix+cred)
	} else {
		verifrt.Assume(n == 0 && prefix == "")
	}
	w := &zz19Writer{}
	status, err := a.ServeHTTP(w, r)
	hv := prefix + cred
	right := len(hv) == 10 && strings.EqualFold(hv[:6], "Basic ") && hv[6:] == "dTpw" // base64("u:p")
	verifrt.Assert((next.ran == 1) == right, "opens-exactly-for-the-configured-credentials")
	if next.ran == 0 {
		verifrt.Assert(status == 401 && err != nil && len(w.body) == 0 && w.Header().Get("WWW-Authenticate") != "", "refusal-is-401-without-body")
	}
	verifrt.Observe("gate", next.ran, status)
}
