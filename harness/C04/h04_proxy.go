//go:build verif

// verif:package caskethttp/proxy
package proxy

import (
	"bytes"
	"io"
	"net/http"
	"net/url"
	"strings"
	"time"

	"github.com/tmpim/casket/casketfile"
	"github.com/tmpim/casket/caskethttp/httpserver"
	"github.com/tmpim/casket/zzverif/verifrt"
)

type zzBackend struct {
	seen     *http.Request
	seenBody []byte
	calls    int
	resp     func(req *http.Request) *http.Response
	fail     []bool // fail[i]: i-th call returns an error
	failRead int    // a failing call reads this many body bytes first (<0: the whole body)
}

var zzErrBackend = io.ErrUnexpectedEOF

func (b *zzBackend) RoundTrip(req *http.Request) (*http.Response, error) {
	i := b.calls
	b.calls++
	b.seen = req
	b.seenBody = nil
	failing := i < len(b.fail) && b.fail[i]
	if req.Body != nil {
		if failing && b.failRead >= 0 {
			buf := make([]byte, b.failRead)
			n, _ := io.ReadFull(req.Body, buf)
			b.seenBody = buf[:n]
		} else {
			b.seenBody, _ = io.ReadAll(req.Body)
		}
	}
	if failing {
		return nil, zzErrBackend
	}
	if b.resp != nil {
		return b.resp(req), nil
	}
	return &http.Response{StatusCode: 200, Header: http.Header{}, Body: io.NopCloser(bytes.NewReader(nil))}, nil
}

type zzClientW struct {
	hdr    http.Header
	status int
	body   []byte
}

func (w *zzClientW) Header() http.Header {
	if w.hdr == nil {
		w.hdr = http.Header{}
	}
	return w.hdr
}
func (w *zzClientW) WriteHeader(c int) {
	if w.status == 0 {
		w.status = c
	}
}
func (w *zzClientW) Write(p []byte) (int, error) {
	if w.status == 0 {
		w.status = 200
	}
	w.body = append(w.body, p...)
	return len(p), nil
}

func zzSym(name string, max int, alphabet string) string {
	n := verifrt.IntRange(name+"len", 0, max)
	s := verifrt.String(name, n)
	for i := 0; i < n; i++ {
		ok := false
		for j := 0; j < len(alphabet); j++ {
			ok = ok || s[i] == alphabet[j]
		}
		verifrt.Assume(ok)
	}
	return s
}

func zzUpstream(base, without string, up, down http.Header, be http.RoundTripper) *staticUpstream {
	u := &staticUpstream{from: "/", MaxFails: 1, WithoutPathPrefix: without, upstreamHeaders: up, downstreamHeaders: down}
	h, err := u.NewHost("http://backend" + base)
	if err != nil {
		verifrt.Fail("newhost")
	}
	h.ReverseProxy.Transport = be
	h.ReverseProxy.FlushInterval = 0 // the flush ticker is timing, not content
	u.Hosts = HostPool{h}
	return u
}

var zzHopNames = []string{"Connection", "Keep-Alive", "Proxy-Authorization", "Te", "Upgrade", "Transfer-Encoding", "Proxy-Connection", "Trailer"}

// zzRequestSide checks what reaches the backend. The input dimensions are explored in three
// groups (path/query, headers, method/body) with the other groups held at a default, which keeps
// the path count linear in the groups instead of their product.
func zzRequestSide(mode int) {
	varyPath, varyHeaders, varyBody := mode == 0, mode == 1, mode == 2
	base, without := "/b", ""
	if varyPath {
		base = []string{"", "/", "/b", "/b/"}[verifrt.Choose("base", 4)]
		without = []string{"", "/a"}[verifrt.Choose("without", 2)]
	}
	up := http.Header{}
	rules := varyHeaders && verifrt.Bool("rules")
	if rules {
		up["X-Set"] = []string{"sv"}
		up["+X-Add"] = []string{"av"}
		up["-X-Del"] = []string{""}
	}
	be := &zzBackend{}
	u := zzUpstream(base, without, up, nil, be)
	p := Proxy{Upstreams: []Upstream{u}}

	method, path, rawPath, query := "GET", "/a/y", "", "q=1"
	if varyBody {
		method = []string{"GET", "POST", "DELETE"}[verifrt.Choose("method", 3)]
	}
	if varyPath {
		path = "/" + zzSym("path", 3, "a/b")
		if verifrt.Bool("encoded") {
			path, rawPath = "/a/x", "/a%2Fx"
		}
		query = zzSym("query", 2, "a=&")
	}
	hdr := http.Header{}
	ev := verifrt.String("hv", 1) // an end-to-end header with an arbitrary value
	hdr["X-E2e"] = []string{ev, "second"}
	hdr["X-Del"] = []string{"gone"}
	hdr["X-Add"] = []string{"client"}
	hop := len(zzHopNames) + 1
	if varyHeaders {
		hop = verifrt.Choose("hop", len(zzHopNames)+2)
	}
	listed := ""
	switch {
	case hop < len(zzHopNames):
		hdr[zzHopNames[hop]] = []string{"hopvalue"}
	case hop == len(zzHopNames):
		// the client names an extension header in Connection, in any letter case (field names are
		// case-insensitive; most clients write connection options in lower case)
		listed = "X-Li"
		tok := verifrt.String("conn-token", 4)
		verifrt.Assume((tok[0] == 'x' || tok[0] == 'X') && tok[1] == '-' && (tok[2] == 'l' || tok[2] == 'L') && (tok[3] == 'i' || tok[3] == 'I'))
		sep := []string{", ", ","}[verifrt.Choose("conn-sep", 2)]
		hdr["Connection"] = []string{"close" + sep + tok}
		hdr["X-Li"] = []string{"l"}
	}
	prior := varyHeaders && verifrt.Bool("prior-xff")
	if prior {
		hdr["X-Forwarded-For"] = []string{"9.9.9.9", "8.8.8.8"}
	}
	remote := "1.2.3.4:5"
	if varyHeaders {
		remote = []string{"1.2.3.4:5", "bad"}[verifrt.Choose("remote", 2)]
	}
	var body []byte
	if varyBody {
		body = verifrt.Bytes("body", verifrt.IntRange("bodylen", 0, 3+2*verifrt.Tier()))
	}
	r := &http.Request{Method: method, URL: &url.URL{Path: path, RawPath: rawPath, RawQuery: query}, Header: hdr, Host: "site",
		RemoteAddr: remote, ContentLength: int64(len(body)), Body: io.NopCloser(bytes.NewReader(body)), Proto: "HTTP/1.1", ProtoMajor: 1, ProtoMinor: 1}
	w := &zzClientW{}
	if rawPath != "" && without != "" {
		verifrt.Tag("encoded-slash-directly-after-without-prefix") // input class of the recorded known finding
	}
	status, err := p.ServeHTTP(w, r)
	verifrt.Assert(status == 0 && err == nil, "proxied")
	verifrt.Assert(be.calls == 1, "one-attempt")
	out := be.seen
	if out == nil {
		return
	}
	verifrt.Assert(out.Method == method, "method-unchanged")
	verifrt.Assert(out.URL.RawQuery == query, "query-unchanged")
	verifrt.Assert(bytes.Equal(be.seenBody, body), "body-unchanged")
	// path: base ⊕ (path − without) with exactly one joining slash
	join := func(a, b string) string {
		as, bs := strings.HasSuffix(a, "/"), strings.HasPrefix(b, "/")
		switch {
		case as && bs:
			return a + b[1:]
		case !as && !bs && b != "":
			return a + "/" + b
		}
		return a + b
	}
	if rawPath == "" {
		verifrt.Assert(out.URL.Path == join(base, strings.TrimPrefix(path, without)), "path-base-plus-trimmed")
	} else {
		verifrt.Assert(out.URL.EscapedPath() == join(base, strings.TrimPrefix(rawPath, without)), "escaped-path-preserved")
	}
	verifrt.Assert(out.URL.Host == "backend" && out.URL.Scheme == "http", "sent-to-backend")
	// end-to-end headers intact
	e2e := out.Header["X-E2e"]
	verifrt.Assert(len(e2e) == 2 && e2e[0] == ev && e2e[1] == "second", "end-to-end-header-intact")
	// hop-by-hop removed
	for _, h := range zzHopNames {
		verifrt.Assert(out.Header.Get(h) == "", "hop-by-hop-removed")
	}
	if listed != "" {
		verifrt.Assert(out.Header.Get(listed) == "", "connection-listed-removed")
	}
	// X-Forwarded-For
	xff := out.Header["X-Forwarded-For"]
	switch {
	case remote == "bad" && !prior:
		verifrt.Assert(len(xff) == 0, "no-xff-without-client-ip")
	case remote == "bad" && prior:
		verifrt.Assert(len(xff) == 2, "prior-xff-kept")
	case prior:
		verifrt.Assert(len(xff) == 1 && xff[0] == "9.9.9.9, 8.8.8.8, 1.2.3.4", "client-appended-to-xff")
	default:
		verifrt.Assert(len(xff) == 1 && xff[0] == "1.2.3.4", "client-in-xff")
	}
	// configured header_upstream changes, exactly once
	if rules {
		verifrt.Assert(len(out.Header["X-Set"]) == 1 && out.Header.Get("X-Set") == "sv", "rule-set")
		a := out.Header["X-Add"]
		verifrt.Assert(len(a) == 2 && a[0] == "client" && a[1] == "av", "rule-add-once")
		verifrt.Assert(len(out.Header["X-Del"]) == 0, "rule-del")
	} else {
		verifrt.Assert(out.Header.Get("X-Del") == "gone" && len(out.Header["X-Add"]) == 1, "no-rules-no-changes")
	}
	verifrt.Observe("out", out.URL.Path, len(be.seenBody))
}

// VerifH04aRequestPath / Headers / Body: the three groups of request-side inputs.
func VerifH04aRequestPath()    { zzRequestSide(0) }
func VerifH04aRequestHeaders() { zzRequestSide(1) }
func VerifH04aRequestBody()    { zzRequestSide(2) }

type zzChunked struct {
	data    []byte
	pos     int
	first   int
	trailer func()
	closed  bool
}

func (c *zzChunked) Read(p []byte) (int, error) {
	if c.pos >= len(c.data) {
		if c.trailer != nil {
			c.trailer()
			c.trailer = nil
		}
		return 0, io.EOF
	}
	n := len(p)
	if c.pos == 0 && c.first > 0 && c.first < n {
		n = c.first
	}
	if n > len(c.data)-c.pos {
		n = len(c.data) - c.pos
	}
	copy(p, c.data[c.pos:c.pos+n])
	c.pos += n
	return n, nil
}
func (c *zzChunked) Close() error { c.closed = true; return nil }

// VerifH04bResponse: what reaches the client.
func VerifH04bResponse() {
	st := verifrt.Int("status")
	verifrt.Assume(st >= 200 && st <= 599)
	body := verifrt.Bytes("body", verifrt.IntRange("bodylen", 0, 3+2*verifrt.Tier()))
	hv := verifrt.String("hv", 1)
	hop := verifrt.Choose("hop", len(zzHopNames)+2)
	announced := verifrt.Bool("announced-trailer")
	unannounced := verifrt.Bool("unannounced-trailer")
	// the announced trailer may carry the name of a field the response also has as a header
	t1 := []string{"X-T1", "X-Shared"}[verifrt.Choose("trailer-name", 2)]
	down := http.Header{}
	rules := verifrt.Bool("rules")
	if rules {
		down["X-Dset"] = []string{"dv"}
		down["-X-Ddel"] = []string{""}
	}
	var res *http.Response
	be := &zzBackend{resp: func(req *http.Request) *http.Response {
		h := http.Header{"X-B": []string{hv, "two"}, "X-Ddel": []string{"x"}, "Content-Type": []string{"text/x"}, "X-Shared": []string{"hdr"}}
		switch {
		case hop < len(zzHopNames):
			h[zzHopNames[hop]] = []string{"hopvalue"}
		case hop == len(zzHopNames):
			h["Connection"] = []string{"X-Listed"}
			h["X-Listed"] = []string{"l"}
		}
		res = &http.Response{StatusCode: st, Header: h, Trailer: http.Header{}}
		if announced {
			res.Trailer[t1] = []string{"t1"}
		}
		cb := &zzChunked{data: body, first: verifrt.IntRange("firstchunk", 0, 2)}
		if unannounced {
			cb.trailer = func() { res.Trailer["X-T2"] = []string{"t2"} }
		}
		res.Body = cb
		return res
	}}
	u := zzUpstream("", "", nil, down, be)
	p := Proxy{Upstreams: []Upstream{u}}
	r := &http.Request{Method: "GET", URL: &url.URL{Path: "/"}, Header: http.Header{}, Host: "site", RemoteAddr: "1.2.3.4:5", Proto: "HTTP/1.1", ProtoMajor: 1, ProtoMinor: 1}
	w := &zzClientW{}
	status, err := p.ServeHTTP(w, r)
	verifrt.Assert(status == 0 && err == nil, "proxied")
	verifrt.Assert(w.status == st, "status-unchanged")
	verifrt.Assert(bytes.Equal(w.body, body), "body-unchanged")
	b := w.Header()["X-B"]
	verifrt.Assert(len(b) == 2 && b[0] == hv && b[1] == "two", "end-to-end-header-intact")
	verifrt.Assert(w.Header().Get("Content-Type") == "text/x", "content-type-kept")
	for _, h := range zzHopNames {
		if h == "Trailer" && announced {
			continue // the proxy re-announces the trailers it will send
		}
		verifrt.Assert(w.Header().Get(h) == "", "hop-by-hop-removed")
	}
	if hop == len(zzHopNames) {
		verifrt.Assert(w.Header().Get("X-Listed") == "", "connection-listed-removed")
	}
	if rules {
		verifrt.Assert(w.Header().Get("X-Dset") == "dv" && w.Header().Get("X-Ddel") == "", "downstream-rules-applied")
	} else {
		verifrt.Assert(w.Header().Get("X-Ddel") == "x", "no-rules-no-changes")
	}
	// trailers reach the client: announced ones under their name (and listed in Trailer),
	// unannounced ones with the TrailerPrefix
	if announced && !unannounced {
		tv := w.Header()[t1]
		verifrt.Assert(len(tv) == 1 && tv[0] == "t1", "announced-trailer-delivered")
	}
	if !(announced && t1 == "X-Shared") {
		sv := w.Header()["X-Shared"]
		verifrt.Assert(len(sv) == 1 && sv[0] == "hdr", "end-to-end-header-intact")
	}
	if unannounced {
		verifrt.Assert(w.Header().Get(http.TrailerPrefix+"X-T2") == "t2", "unannounced-trailer-delivered")
		if announced {
			verifrt.Assert(w.Header().Get(http.TrailerPrefix+t1) == "t1" || w.Header().Get(t1) == "t1", "announced-trailer-delivered")
		}
	}
	verifrt.Observe("resp", w.status, len(w.body))
}

// VerifH17eTooLarge: a body cut off by the size limit is answered 413 by the proxy.
func VerifH17eTooLarge() {
	be := &zzBackend{}
	u := zzUpstream("", "", nil, nil, be)
	be.fail = nil
	p := Proxy{Upstreams: []Upstream{u}}
	failing := &zzFailTransport{err: httpserver.ErrMaxBytesExceeded}
	u.Hosts[0].ReverseProxy.Transport = failing
	r := &http.Request{Method: "POST", URL: &url.URL{Path: "/"}, Header: http.Header{}, Host: "site", RemoteAddr: "1.2.3.4:5", ContentLength: 5,
		Body: io.NopCloser(bytes.NewReader([]byte("12345")))}
	status, err := p.ServeHTTP(&zzClientW{}, r)
	verifrt.Assert(status == 413 && err == httpserver.ErrMaxBytesExceeded, "too-large-is-413")
}

type zzFailTransport struct{ err error }

func (t *zzFailTransport) RoundTrip(*http.Request) (*http.Response, error) { return nil, t.err }

// VerifH04cRetry: with retries enabled, a request whose first backend fails is answered by the
// second one, and that attempt again carries the original method, path (base + path, once),
// query, headers (rules applied once) and the complete body.
func VerifH04cRetry() {
	verifrt.Budget(2000000) // a retry loop that never ends is cut here (paths need < 50 k instructions)
	base := []string{"", "/b", "/b/"}[verifrt.Choose("base", 3)]
	targetQuery := []string{"", "?tq=1"}[verifrt.Choose("targetquery", 2)]
	up := http.Header{}
	rules := verifrt.Bool("rules")
	if rules {
		up["+X-Add"] = []string{"av"}
		up["X-Set"] = []string{"sv"}
	}
	u := &staticUpstream{from: "/", MaxFails: 1, FailTimeout: 10 * time.Second, TryDuration: 5 * time.Second, TryInterval: 250 * time.Millisecond,
		upstreamHeaders: up, Policy: &First{}}
	// the first backend fails before reading the body, after one byte, or after all of it
	be1 := &zzBackend{fail: []bool{true}, failRead: verifrt.Choose("first-backend-reads", 3) - 1}
	be2 := &zzBackend{}
	backends := []*zzBackend{be1, be2}
	single := verifrt.Bool("single-backend")
	if single {
		// one backend that fails once and then answers: retries go to the same host
		backends = []*zzBackend{be1}
		be2 = be1
		u.FailTimeout = 0 // (no failure counting, the default: the backend stays in rotation)
	}
	for i, be := range backends {
		h, err := u.NewHost("http://backend" + []string{"1", "2"}[i] + base + targetQuery)
		if err != nil {
			verifrt.Fail("newhost")
			return
		}
		h.ReverseProxy.Transport = be
		h.ReverseProxy.FlushInterval = 0
		u.Hosts = append(u.Hosts, h)
	}
	p := Proxy{Upstreams: []Upstream{u}}
	body := verifrt.Bytes("body", verifrt.IntRange("bodylen", 0, 2+2*verifrt.Tier()))
	query := []string{"", "q=1"}[verifrt.Choose("query", 2)]
	r := &http.Request{Method: "POST", URL: &url.URL{Path: "/x", RawQuery: query}, Header: http.Header{"X-Add": []string{"client"}}, Host: "site",
		RemoteAddr: "1.2.3.4:5", ContentLength: int64(len(body)), Body: io.NopCloser(bytes.NewReader(body)), Proto: "HTTP/1.1", ProtoMajor: 1, ProtoMinor: 1}
	w := &zzClientW{}
	if single && len(body) > 0 {
		// with one backend the body is not buffered (by design, to keep streaming), yet the request is
		// retried on the same backend: the input class of the recorded known finding
		verifrt.Tag("single-backend-retry-of-a-request-with-a-body")
	}
	status, err := p.ServeHTTP(w, r)
	verifrt.Assert(status == 0 && err == nil && w.status == 200, "answered-by-the-healthy-backend")
	if single {
		verifrt.Assert(be1.calls == 2, "second-attempt-on-the-same-backend")
	} else {
		verifrt.Assert(be1.calls == 1 && be2.calls == 1, "one-attempt-per-backend")
	}
	out := be2.seen
	if out == nil {
		return
	}
	join := func(a, b string) string {
		as, bs := strings.HasSuffix(a, "/"), strings.HasPrefix(b, "/")
		switch {
		case as && bs:
			return a + b[1:]
		case !as && !bs && b != "":
			return a + "/" + b
		}
		return a + b
	}
	verifrt.Assert(out.Method == "POST", "retry-method-unchanged")
	verifrt.Assert(out.URL.Path == join(base, "/x"), "retry-path-base-applied-once")
	wantQ := query
	if targetQuery != "" {
		wantQ = "tq=1"
		if query != "" {
			wantQ += "&" + query
		}
	}
	verifrt.Assert(out.URL.RawQuery == wantQ, "retry-query-applied-once")
	verifrt.Assert(bytes.Equal(be2.seenBody, body), "retry-receives-the-complete-body")
	verifrt.Assert(out.URL.Host == "backend2" || single && out.URL.Host == "backend1", "retry-goes-to-the-second-backend")
	if rules {
		a := out.Header["X-Add"]
		verifrt.Assert(len(a) == 2 && a[0] == "client" && a[1] == "av", "retry-header-rules-applied-once")
		verifrt.Assert(len(out.Header["X-Set"]) == 1, "retry-set-rule-once")
	}
	xff := out.Header["X-Forwarded-For"]
	verifrt.Assert(len(xff) == 1 && xff[0] == "1.2.3.4", "retry-xff-once")
	verifrt.Observe("retry", out.URL.Path, out.URL.RawQuery)
}

// VerifH04dConfigured: the upstream block is built by the real parser (NewStaticUpstreams) from
// Casketfile text, so the configured `without` prefix and header rules are the ones the parser
// stores: path changed only by base and `without` exactly as written (a trailing slash counts),
// header_upstream / header_downstream rules -- plain ones, search/replace ones, or both -- applied.
func VerifH04dConfigured() {
	without := []string{"", "/a", "/a/"}[verifrt.Choose("without", 3)]
	upRules := verifrt.Choose("upstream-rules", 4)     // 0 none, 1 plain, 2 replace, 3 both
	downRules := verifrt.Choose("downstream-rules", 4) // same
	text := "proxy /a http://backend/b {\n"
	if without != "" {
		text += "\twithout " + without + "\n"
	}
	if upRules&1 != 0 {
		text += "\theader_upstream X-Set sv\n"
	}
	if upRules&2 != 0 {
		text += "\theader_upstream X-R ^a z\n"
	}
	if downRules&1 != 0 {
		text += "\theader_downstream X-DSet dv\n"
	}
	if downRules&2 != 0 {
		text += "\theader_downstream X-D ^a z\n"
	}
	// a configured change may name a field that is hop-by-hop when it comes from the backend
	hopRule := verifrt.Bool("downstream-rule-on-hop-by-hop-field")
	if hopRule {
		text += "\theader_downstream Keep-Alive timeout=5\n"
	}
	text += "}\n"
	ups, err := NewStaticUpstreams(casketfile.NewDispenser("Casketfile", strings.NewReader(text)), "")
	if err != nil || len(ups) != 1 {
		verifrt.Fail("configuration-accepted")
		return
	}
	u := ups[0].(*staticUpstream)
	be := &zzBackend{resp: func(req *http.Request) *http.Response {
		return &http.Response{StatusCode: 200, Header: http.Header{"X-D": []string{"abc"}, "Keep-Alive": []string{"timeout=99"}}, Body: io.NopCloser(bytes.NewReader(nil))}
	}}
	for _, h := range u.Hosts {
		h.ReverseProxy.Transport = be
		h.ReverseProxy.FlushInterval = 0
	}
	p := Proxy{Upstreams: ups}
	path := "/a" + zzSym("path", 3, "ab/")
	r := &http.Request{Method: "GET", URL: &url.URL{Path: path}, Header: http.Header{"X-R": []string{"abc"}}, Host: "site", RemoteAddr: "1.2.3.4:5", Body: http.NoBody,
		Proto: "HTTP/1.1", ProtoMajor: 1, ProtoMinor: 1}
	w := &zzClientW{}
	status, serr := p.ServeHTTP(w, r)
	verifrt.Assert(status == 0 && serr == nil && be.calls == 1, "proxied")
	if be.seen == nil {
		return
	}
	out := be.seen
	rest := strings.TrimPrefix(path, without)
	want := "/b" + rest
	if !strings.HasPrefix(rest, "/") && rest != "" {
		want = "/b/" + rest
	}
	verifrt.Assert(out.URL.Path == want, "path-changed-only-by-base-and-without-as-written")
	wantR := "abc"
	if upRules&2 != 0 {
		wantR = "zbc"
	}
	verifrt.Assert(out.Header.Get("X-R") == wantR, "upstream-replace-rule-applied-iff-configured")
	verifrt.Assert((out.Header.Get("X-Set") == "sv") == (upRules&1 != 0), "upstream-set-rule-applied-iff-configured")
	wantD := "abc"
	if downRules&2 != 0 {
		wantD = "zbc"
	}
	verifrt.Assert(w.Header().Get("X-D") == wantD, "downstream-replace-rule-applied-iff-configured")
	verifrt.Assert((w.Header().Get("X-DSet") == "dv") == (downRules&1 != 0), "downstream-set-rule-applied-iff-configured")
	if hopRule {
		verifrt.Assert(w.Header().Get("Keep-Alive") == "timeout=5", "configured-downstream-change-reaches-the-client")
	} else {
		verifrt.Assert(w.Header().Get("Keep-Alive") == "", "backends-hop-by-hop-field-removed")
	}
	verifrt.Observe("configured", out.URL.Path, out.Header.Get("X-R"), w.Header().Get("X-D"))
}
