//go:build verif

// verif:package caskethttp/proxy
package proxy

import (
	"net/http"
	"strconv"
	"sync"

	"github.com/tmpim/casket/zzverif/verifrt"
)

// zzAvail is the statement-level notion of "available": not marked down (unhealthy flag or at
// least max_fails unexpired failures) and not at its connection cap.
func zzAvail(h *UpstreamHost, maxFails int32) bool {
	if h.Unhealthy != 0 || h.Fails >= maxFails {
		return false
	}
	if h.MaxConns > 0 && h.Conns >= h.MaxConns {
		return false
	}
	return true
}

func zzPool(n int) (HostPool, *staticUpstream) {
	u := &staticUpstream{MaxFails: verifrt.Int32("maxfails")}
	verifrt.Assume(u.MaxFails >= 1) // parseBlock rejects max_fails < 1; default is 1
	pool := make(HostPool, n)
	for i := 0; i < n; i++ {
		h, err := u.NewHost("http://backend")
		if err != nil {
			verifrt.Fail("newhost")
		}
		if verifrt.Bool("unhealthy") {
			h.Unhealthy = 1
		}
		h.Fails = verifrt.Int32("fails")
		verifrt.Assume(h.Fails >= 0)
		h.Conns = verifrt.Int64("conns")
		verifrt.Assume(h.Conns >= 0)
		h.MaxConns = verifrt.Int64("maxconns")
		verifrt.Assume(h.MaxConns >= 0)
		pool[i] = h
	}
	return pool, u
}

// zzKeyWithHash inverts the hash summary natively: a key whose real FNV-1a hash has the same residue
// mod n as hv; when a counterexample is being confirmed, a key with exactly the hash hv is searched
// for first (16 goroutines over 5-byte keys, a few seconds), because changed code may depend on
// more than the residue.
func zzKeyWithHash(hv uint32, n int) string {
	if verifrt.Confirming() {
		found := make(chan string, 16)
		stop := make(chan struct{})
		var wg sync.WaitGroup
		for w := 0; w < 16; w++ {
			wg.Add(1)
			go func(w int) {
				defer wg.Done()
				var b [5]byte
				b[4] = byte('a' + w)
				for i := uint64(0); i < 1<<32; i++ {
					if i&0xfffff == 0 {
						select {
						case <-stop:
							return
						default:
						}
					}
					b[0], b[1], b[2], b[3] = byte(i), byte(i>>8), byte(i>>16), byte(i>>24)
					h := uint32(2166136261)
					for _, c := range b {
						h ^= uint32(c)
						h *= 16777619
					}
					if h == hv {
						found <- string(b[:])
						return
					}
				}
			}(w)
		}
		go func() { wg.Wait(); close(found) }()
		k, ok := <-found
		close(stop)
		if ok && hash(k) == hv {
			return k
		}
	}
	for k := 0; k < 1000000; k++ {
		key := strconv.Itoa(k)
		if hash(key)%uint32(n) == hv%uint32(n) {
			return key
		}
	}
	return "k"
}

func zzIndex(pool HostPool, h *UpstreamHost) int {
	for i := range pool {
		if pool[i] == h {
			return i
		}
	}
	return -1
}

func zzMaxPool() int {
	if verifrt.Tier() > 0 {
		return 6 // (8 did not finish the availability harness within an hour)
	}
	return 5
}

// VerifH05aAvailability: every policy returns an available member of the pool iff one exists.
func VerifH05aAvailability() {
	n := verifrt.IntRange("n", 1, zzMaxPool())
	pool, u := zzPool(n)
	klen := verifrt.IntRange("keylen", 0, 2)
	key := verifrt.String("key", klen)
	req := &http.Request{RemoteAddr: key, RequestURI: key, Header: http.Header{"X-Key": []string{key}}}
	var p Policy
	pk := verifrt.Choose("policy", 7)
	switch pk {
	case 0:
		p = &Random{}
	case 1:
		p = &LeastConn{}
	case 2:
		rr := &RoundRobin{}
		rr.robin = verifrt.Uint32("robin")
		p = rr
	case 3:
		p = &IPHash{}
	case 4:
		p = &URIHash{}
	case 5:
		p = &First{}
	default:
		p = &Header{Names: []string{"X-Key"}}
		// Header falls back to a package-level round-robin cursor when the request lacks the header:
		// start it from a known value (natively several vectors run in one process)
		roundRobinPolicier.robin = 0
	}
	if pk == 3 || pk == 4 || pk == 6 {
		// hash policies with a non-empty key are VerifH05aHashed's subject (hash value summarised);
		// here only the empty-key forms (Header falls back to round robin) keep the real FNV-1a
		verifrt.Assume(klen == 0)
	}
	got := p.Select(pool, req)
	anyAvail := false
	for _, h := range pool {
		if zzAvail(h, u.MaxFails) {
			anyAvail = true
		}
	}
	if got == nil {
		verifrt.Assert(!anyAvail, "available-found")
		verifrt.Observe("sel", pk, -1)
		return
	}
	idx := zzIndex(pool, got)
	verifrt.Assert(idx >= 0, "result-in-pool")
	verifrt.Assert(zzAvail(got, u.MaxFails), "result-available")
	verifrt.Assert(anyAvail, "nil-when-none")
	if pk >= 2 {
		verifrt.Observe("sel", pk, idx)
	}
}

// VerifH05bSpecific: policy-specific guarantees.
func VerifH05bSpecific() {
	n := verifrt.IntRange("n", 1, zzMaxPool())
	pool, u := zzPool(n)
	req := &http.Request{RemoteAddr: "10.0.0.1:99", RequestURI: "/x", Header: http.Header{}}
	switch verifrt.Choose("which", 3) {
	case 0: // first: the earliest available
		got := (&First{}).Select(pool, req)
		for i, h := range pool {
			if zzAvail(h, u.MaxFails) {
				verifrt.Assert(got == pool[i], "first-is-earliest")
				return
			}
		}
		verifrt.Assert(got == nil, "first-none")
	case 1: // least_conn: a least-loaded available backend
		got := (&LeastConn{}).Select(pool, req)
		if got == nil {
			return // covered by H05a
		}
		for _, h := range pool {
			if zzAvail(h, u.MaxFails) {
				verifrt.Assert(got.Conns <= h.Conns, "leastconn-minimal")
			}
		}
	default: // round robin: the first available host in cyclic order after the cursor
		rr := &RoundRobin{}
		rr.robin = verifrt.Uint32("robin")
		start := rr.robin
		got := rr.Select(pool, req)
		if got == nil {
			return
		}
		gi := zzIndex(pool, got)
		first := (start + 1) % uint32(n)
		for k := uint32(0); k < uint32(n); k++ {
			i := int((first + k) % uint32(n))
			if zzAvail(pool[i], u.MaxFails) {
				verifrt.Assert(i == gi, "roundrobin-next-available")
				return
			}
		}
	}
}

// VerifH05bEven: with every backend available, n consecutive round-robin selections visit every
// backend exactly once (counter wrap excluded: robin < 2^32 - n).
func VerifH05bEven() {
	n := verifrt.IntRange("n", 1, zzMaxPool())
	u := &staticUpstream{MaxFails: 1}
	pool := make(HostPool, n)
	for i := range pool {
		h, _ := u.NewHost("http://backend")
		pool[i] = h
	}
	rr := &RoundRobin{}
	rr.robin = verifrt.Uint32("robin")
	req := &http.Request{}
	seen := make([]int, n)
	for k := 0; k < n; k++ {
		got := rr.Select(pool, req)
		if got == nil {
			verifrt.Fail("roundrobin-nil")
		}
		seen[zzIndex(pool, got)]++
	}
	for i := range seen {
		verifrt.Assert(seen[i] == 1, "roundrobin-even")
	}
}

// VerifH05aHashed: hash policies for larger pools. hostByHashing depends on the key only through
// hash(key) mod n, so the hash is summarised as an arbitrary 32-bit value (a superset of what FNV
// produces); the native replay inverts the summary by searching for a key with that residue.
func VerifH05aHashed() {
	n := verifrt.IntRange("n", 1, zzMaxPool())
	pool, u := zzPool(n)
	hv := verifrt.Uint32("hash")
	key := "k"
	if verifrt.Symbolic() {
		verifrt.Stub("github.com/tmpim/casket/caskethttp/proxy.hash", func(string) uint32 { return hv })
	} else {
		key = zzKeyWithHash(hv, n)
	}
	req := &http.Request{RemoteAddr: key, RequestURI: key, Header: http.Header{"X-Key": []string{key}}}
	var p Policy
	switch verifrt.Choose("policy", 3) {
	case 0:
		p = &IPHash{}
	case 1:
		p = &URIHash{}
	default:
		p = &Header{Names: []string{"X-Key"}}
	}
	got := p.Select(pool, req)
	anyAvail := false
	for _, h := range pool {
		if zzAvail(h, u.MaxFails) {
			anyAvail = true
		}
	}
	if got == nil {
		verifrt.Assert(!anyAvail, "available-found")
		return
	}
	verifrt.Assert(zzIndex(pool, got) >= 0, "result-in-pool")
	verifrt.Assert(zzAvail(got, u.MaxFails), "result-available")
}

// VerifH05bHashStable: hash policies are functions of the key while availability is unchanged:
// the real hash is a function of its input, and hostByHashing has no hidden state.
func VerifH05bHashStable() {
	klen := verifrt.IntRange("keylen", 0, 3)
	key := verifrt.String("key", klen)
	verifrt.Assert(hash(key) == hash(key), "hash-is-a-function")
	n := verifrt.IntRange("n", 1, 4)
	pool, _ := zzPool(n)
	hv := verifrt.Uint32("hash")
	k2 := "k"
	if verifrt.Symbolic() {
		verifrt.Stub("github.com/tmpim/casket/caskethttp/proxy.hash", func(string) uint32 { return hv })
	} else {
		k2 = zzKeyWithHash(hv, n)
	}
	a := hostByHashing(pool, k2)
	b := hostByHashing(pool, k2)
	verifrt.Assert(a == b, "same-key-same-backend")
}
