//go:build verif

// verif:package caskethttp/proxy
package proxy

import (
	"bytes"
	"errors"
	"io"
	"net/http"
	"net/url"
	"time"

	"github.com/tmpim/casket/zzverif/verifrt"
)

type zzRetryBackend struct {
	failing  bool
	calls    int
	lastBody []byte
}

func (b *zzRetryBackend) RoundTrip(req *http.Request) (*http.Response, error) {
	b.calls++
	b.lastBody = nil
	if req.Body != nil {
		b.lastBody, _ = io.ReadAll(req.Body)
	}
	if b.failing {
		return nil, errors.New("connection refused")
	}
	return &http.Response{StatusCode: 200, Header: http.Header{}, Body: io.NopCloser(bytes.NewReader([]byte("ok")))}, nil
}

type zzRetryW struct {
	hdr    http.Header
	status int
	body   []byte
}

func (w *zzRetryW) Header() http.Header {
	if w.hdr == nil {
		w.hdr = http.Header{}
	}
	return w.hdr
}
func (w *zzRetryW) WriteHeader(c int) {
	if w.status == 0 {
		w.status = c
	}
}
func (w *zzRetryW) Write(p []byte) (int, error) {
	if w.status == 0 {
		w.status = 200
	}
	w.body = append(w.body, p...)
	return len(p), nil
}

// VerifH05cRetries: with retries enabled a request is answered by a healthy backend whenever one
// exists, whatever subset of the others is failing, that backend receiving the complete body; if
// all fail the client gets 502 once try_duration is spent.
func VerifH05cRetries() {
	verifrt.Terminates()
	n := verifrt.IntRange("hosts", 2, 3)
	var pol Policy
	switch verifrt.Choose("policy", 3) {
	case 0:
		pol = &First{}
	case 1:
		pol = &RoundRobin{}
	default:
		pol = &LeastConn{}
	}
	u := &staticUpstream{from: "/", MaxFails: 1, FailTimeout: 10 * time.Second, TryDuration: 3 * time.Second, TryInterval: 250 * time.Millisecond, Policy: pol}
	bes := make([]*zzRetryBackend, n)
	anyHealthy := false
	for i := range bes {
		bes[i] = &zzRetryBackend{failing: verifrt.Bool("failing")}
		anyHealthy = anyHealthy || !bes[i].failing
		h, err := u.NewHost("http://backend")
		if err != nil {
			verifrt.Fail("newhost")
			return
		}
		h.ReverseProxy.Transport = bes[i]
		h.ReverseProxy.FlushInterval = 0
		u.Hosts = append(u.Hosts, h)
	}
	p := Proxy{Upstreams: []Upstream{u}}
	body := verifrt.Bytes("body", verifrt.IntRange("bodylen", 0, 2))
	r := &http.Request{Method: "POST", URL: &url.URL{Path: "/x"}, Header: http.Header{}, Host: "site", RemoteAddr: "1.2.3.4:5",
		ContentLength: int64(len(body)), Body: io.NopCloser(bytes.NewReader(body))}
	w := &zzRetryW{}
	status, _ := p.ServeHTTP(w, r)
	if anyHealthy {
		verifrt.Assert(status == 0 && w.status == 200 && string(w.body) == "ok", "answered-by-a-healthy-backend")
		served := 0
		for _, b := range bes {
			if !b.failing && b.calls > 0 {
				served++
				verifrt.Assert(bytes.Equal(b.lastBody, body), "healthy-backend-received-the-complete-body")
			}
		}
		verifrt.Assert(served == 1, "exactly-one-healthy-backend-used")
	} else {
		verifrt.Assert(status == 502 && w.status == 0, "bad-gateway-when-all-fail")
	}
	for _, b := range bes {
		if b.calls > 0 {
			verifrt.Assert(bytes.Equal(b.lastBody, body), "every-attempt-receives-the-complete-body")
		}
	}
	verifrt.Observe("retry", status, w.status)
}
