//go:build verif

// verif:package caskethttp/proxy
package proxy

import (
	"bytes"
	"errors"
	"io"
	"net/http"
	"net/url"
	"runtime"
	"sync"
	"time"

	"github.com/tmpim/casket/zzverif/verifrt"
)

type zzRetryBackend struct {
	failing   bool
	failFirst int // fail this many calls, then succeed (used when failing is false)
	calls     int
	lastBody  []byte
	mismatch  bool // a call carried a body other than the one its request was sent with
}

func (b *zzRetryBackend) RoundTrip(req *http.Request) (*http.Response, error) {
	b.calls++
	b.lastBody = nil
	if req.Body != nil {
		b.lastBody, _ = io.ReadAll(req.Body)
		req.Body.Close() // RoundTrip must always close the body, including on errors
	}
	if want := req.Header.Get("X-Want-Body"); want != "" && want != string(b.lastBody) {
		b.mismatch = true
	}
	if b.failing || b.calls <= b.failFirst {
		return nil, errors.New("connection refused")
	}
	return &http.Response{StatusCode: 200, Header: http.Header{}, Body: io.NopCloser(bytes.NewReader([]byte("ok")))}, nil
}

type zzRetryW struct {
	hdr    http.Header
	status int
	body   []byte
}

func (w *zzRetryW) Header() http.Header {
	if w.hdr == nil {
		w.hdr = http.Header{}
	}
	return w.hdr
}
func (w *zzRetryW) WriteHeader(c int) {
	if w.status == 0 {
		w.status = c
	}
}
func (w *zzRetryW) Write(p []byte) (int, error) {
	if w.status == 0 {
		w.status = 200
	}
	w.body = append(w.body, p...)
	return len(p), nil
}

// VerifH05cRetries: with retries enabled a request is answered by a healthy backend whenever one
// exists, whatever subset of the others is failing, that backend receiving the complete body; if
// all fail the client gets 502 once try_duration is spent.
func VerifH05cRetries() {
	verifrt.Budget(2000000) // a retry loop that never ends is cut here (paths need < 50 k instructions)
	verifrt.Terminates()
	n := verifrt.IntRange("hosts", 2, 3)
	var pol Policy
	// (policies without a random tie-break, so that a native replay follows the same attempts)
	switch verifrt.Choose("policy", 2) {
	case 0:
		pol = &First{}
	default:
		pol = &RoundRobin{}
	}
	// retry window and pause between attempts: roomy, equal, and a window shorter than one pause --
	// a retry is attempted as long as the window has not elapsed when the failure is noticed
	tk := verifrt.Choose("try-window", 3)
	tryDur := []time.Duration{3 * time.Second, 250 * time.Millisecond, 500 * time.Millisecond}[tk]
	tryInt := []time.Duration{250 * time.Millisecond, 250 * time.Millisecond, time.Second}[tk]
	u := &staticUpstream{from: "/", MaxFails: 1, FailTimeout: 10 * time.Second, TryDuration: tryDur, TryInterval: tryInt, Policy: pol}
	bes := make([]*zzRetryBackend, n)
	anyHealthy := false
	for i := range bes {
		bes[i] = &zzRetryBackend{failing: verifrt.Bool("failing")}
		anyHealthy = anyHealthy || !bes[i].failing
		h, err := u.NewHost("http://backend")
		if err != nil {
			verifrt.Fail("newhost")
			return
		}
		h.ReverseProxy.Transport = bes[i]
		h.ReverseProxy.FlushInterval = 0
		u.Hosts = append(u.Hosts, h)
	}
	p := Proxy{Upstreams: []Upstream{u}}
	body := verifrt.Bytes("body", verifrt.IntRange("bodylen", 0, 2))
	// the upload's length may be undeclared (chunked transfer, HTTP/2 without content-length)
	clen := int64(len(body))
	if verifrt.Bool("length-not-declared") {
		clen = -1
	}
	r := &http.Request{Method: "POST", URL: &url.URL{Path: "/x"}, Header: http.Header{}, Host: "site", RemoteAddr: "1.2.3.4:5",
		ContentLength: clen, Body: io.NopCloser(bytes.NewReader(body))}
	w := &zzRetryW{}
	status, _ := p.ServeHTTP(w, r)
	nfailing := 0
	for _, b := range bes {
		if b.failing {
			nfailing++
		}
	}
	// the short windows leave room for exactly one retry (the second failure is noticed after the
	// window has elapsed), so a healthy backend must be reached only if at most one other fails
	reachable := anyHealthy && (tk == 0 || nfailing <= 1)
	if anyHealthy && !reachable {
		verifrt.Observe("retry", status, w.status)
		return
	}
	if anyHealthy {
		verifrt.Assert(status == 0 && w.status == 200 && string(w.body) == "ok", "answered-by-a-healthy-backend")
		served := 0
		for _, b := range bes {
			if !b.failing && b.calls > 0 {
				served++
				verifrt.Assert(bytes.Equal(b.lastBody, body), "healthy-backend-received-the-complete-body")
			}
		}
		verifrt.Assert(served == 1, "exactly-one-healthy-backend-used")
	} else {
		verifrt.Assert(status == 502 && w.status == 0, "bad-gateway-when-all-fail")
	}
	for _, b := range bes {
		if b.calls > 0 {
			verifrt.Assert(bytes.Equal(b.lastBody, body), "every-attempt-receives-the-complete-body")
		}
	}
	verifrt.Observe("retry", status, w.status)
}

// VerifH05dConcurrentRetry: two uploads at the same time, the first backend failing once: every
// attempt of each request -- in particular the retry that happens while the other upload is being
// handled -- carries that request's own complete body.
func VerifH05dConcurrentRetry() {
	verifrt.Budget(2000000) // a retry loop that never ends is cut here (paths need < 50 k instructions)
	verifrt.Terminates()
	verifrt.Concurrent(verifrt.Tier()) // goroutines interleave where they block (sleep between attempts, locks); thorough: one preemption
	if verifrt.Confirming() {
		// the native replay of a counterexample: one scheduler thread, so that sync.Pool hands a
		// released object to the next taker as the engine's pool model does
		defer runtime.GOMAXPROCS(runtime.GOMAXPROCS(1))
	}
	u := &staticUpstream{from: "/", MaxFails: 1, FailTimeout: 10 * time.Second, TryDuration: 3 * time.Second, TryInterval: 250 * time.Millisecond, Policy: &First{}}
	bes := []*zzRetryBackend{{failFirst: 1}, {}}
	for _, be := range bes {
		h, err := u.NewHost("http://backend")
		if err != nil {
			verifrt.Fail("newhost")
			return
		}
		h.ReverseProxy.Transport = be
		h.ReverseProxy.FlushInterval = 0
		u.Hosts = append(u.Hosts, h)
	}
	p := Proxy{Upstreams: []Upstream{u}}
	bodies := []string{"AAAA", "BB"}
	statuses := make([]int, 2)
	var wg sync.WaitGroup
	for i := range bodies {
		wg.Add(1)
		go func(i int) {
			defer wg.Done()
			r := &http.Request{Method: "POST", URL: &url.URL{Path: "/x"}, Header: http.Header{"X-Want-Body": []string{bodies[i]}}, Host: "site", RemoteAddr: "1.2.3.4:5",
				ContentLength: int64(len(bodies[i])), Body: io.NopCloser(bytes.NewReader([]byte(bodies[i])))}
			w := &zzRetryW{}
			p.ServeHTTP(w, r)
			statuses[i] = w.status
		}(i)
	}
	wg.Wait()
	for _, be := range bes {
		verifrt.Assert(!be.mismatch, "every-attempt-carries-its-own-requests-body")
	}
	verifrt.Assert(statuses[0] == 200 && statuses[1] == 200, "both-uploads-answered")
	verifrt.Observe("concurrent-retry", bes[0].calls+bes[1].calls)
}
