//go:build verif

// verif:package caskethttp/proxy
package proxy

import (
	"strings"
	"time"

	"github.com/tmpim/casket/casketfile"
	"github.com/tmpim/casket/zzverif/verifrt"
)

// VerifH05eBlockOrder: the limits that decide whether a backend may be selected (max_conns,
// max_fails, fail_timeout) apply to every backend of the block -- those on the proxy line and those
// named by `upstream` lines inside it -- wherever in the block they are written.
func VerifH05eBlockOrder() {
	lines := []string{"upstream b:2", "max_conns 1", "fail_timeout 10s", "max_fails 3"}
	perm := verifrt.Choose("upstream-line-position", 4) // the upstream line before / between / after the settings
	var order []string
	rest := lines[1:]
	for i := 0; i <= len(rest); i++ {
		if i == perm {
			order = append(order, lines[0])
		}
		if i < len(rest) {
			order = append(order, rest[i])
		}
	}
	text := "proxy / a:1 {\n\t" + strings.Join(order, "\n\t") + "\n}\n"
	ups, err := NewStaticUpstreams(casketfile.NewDispenser("Casketfile", strings.NewReader(text)), "")
	if err != nil || len(ups) != 1 {
		verifrt.Fail("configuration-accepted")
		return
	}
	u := ups[0].(*staticUpstream)
	verifrt.Assert(len(u.Hosts) == 2, "both-backends-in-the-pool")
	for _, h := range u.Hosts {
		verifrt.Assert(h.MaxConns == 1, "max-conns-applies-to-every-backend")
		verifrt.Assert(h.FailTimeout == 10*time.Second, "fail-timeout-applies-to-every-backend")
		// at its connection limit a backend is not available, so no policy returns it
		h.Conns = 1
		verifrt.Assert(h.Full() && !h.Available(), "backend-at-max-conns-not-available")
		h.Conns = 0
		h.Fails = 3
		verifrt.Assert(h.Down() && !h.Available(), "backend-at-max-fails-not-available")
		h.Fails = 0
	}
	verifrt.Observe("hosts", len(u.Hosts))
}
