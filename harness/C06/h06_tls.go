//go:build verif

// verif:package caskettls
package caskettls

import (
	"crypto/tls"
	"strings"

	"github.com/caddyserver/certmagic"
	"github.com/tmpim/casket/zzverif/verifrt"
)

func zzLabel(name, alphabet string) string {
	s := verifrt.String(name, 1)
	ok := false
	for i := 0; i < len(alphabet); i++ {
		ok = ok || s[0] == alphabet[i]
	}
	verifrt.Assume(ok)
	return s
}

func zzHostname() string {
	switch verifrt.Choose("hostkind", 5) {
	case 0:
		return zzLabel("hl", "a*")
	case 1:
		return zzLabel("hl", "a*") + "." + zzLabel("hl", "a*")
	case 2:
		return ""
	case 3:
		return "0.0.0.0"
	default:
		return "::"
	}
}

var zzVersions = []uint16{0, tls.VersionTLS10, tls.VersionTLS11, tls.VersionTLS12, tls.VersionTLS13}

func zzVersion(name string) uint16 {
	v := verifrt.Uint16(name)
	verifrt.Assume(v == 0 || (v >= tls.VersionTLS10 && v <= tls.VersionTLS13))
	return v
}

func zzConfig(i int) *Config {
	c := &Config{Enabled: true, Hostname: zzHostname()}
	if i == 0 {
		// the first site's settings are fully symbolic; the others use fixed, distinct settings
		c.ProtocolMinVersion = zzVersion("min")
		c.ProtocolMaxVersion = zzVersion("max")
		ca := verifrt.Int("clientauth")
		verifrt.Assume(ca >= 0 && ca <= 4)
		c.ClientAuth = tls.ClientAuthType(ca)
		if verifrt.Bool("cipher") {
			c.Ciphers = []uint16{tls.TLS_ECDHE_RSA_WITH_AES_128_GCM_SHA256}
		}
	} else {
		c.ProtocolMinVersion = tls.VersionTLS10 + uint16(i-1)
		c.ProtocolMaxVersion = tls.VersionTLS13
		c.ClientAuth = tls.RequireAnyClientCert
	}
	SetDefaultTLSParams(c)
	return c
}

// zzCatchAll reports whether hostname is stored under the catch-all key.
func zzKey(h string) string {
	if h == "0.0.0.0" || h == "::" {
		return ""
	}
	return h
}

// VerifH06aSNILookup: the tls.Config used for a handshake is the one built from the site whose
// host name most specifically matches the SNI name (exact, then wildcard, then catch-all), and it
// carries that site's settings.
func VerifH06aSNILookup() {
	n := verifrt.IntRange("nconfigs", 1, 2+verifrt.Tier())
	cfgs := make([]*Config, n)
	for i := range cfgs {
		cfgs[i] = zzConfig(i)
	}
	// distinct SNI keys (same-name configs are H06c's subject)
	for i := range cfgs {
		for j := 0; j < i; j++ {
			verifrt.Assume(zzKey(cfgs[i].Hostname) != zzKey(cfgs[j].Hostname))
		}
	}
	// the operator may have designated a default server name (-default-sni): it stands in for an
	// absent SNI only, a name the client did send is looked up as sent
	certmagic.Default.DefaultServerName = ""
	if verifrt.Bool("default-sni-set") {
		certmagic.Default.DefaultServerName = cfgs[0].Hostname
	}
	defer func() { certmagic.Default.DefaultServerName = "" }()
	tc, err := MakeTLSConfig(cfgs)
	if err != nil || tc == nil {
		verifrt.Fail("make-tls-config")
		return
	}
	var sni string
	if verifrt.Bool("twolabels") {
		sni = zzLabel("sl", "abA") + "." + zzLabel("sl", "abA")
	} else {
		sni = zzLabel("sl", "abA")
	}
	raw := sni
	if verifrt.Bool("blank") {
		raw = " " + sni + " "
	}
	got, gerr := tc.GetConfigForClient(&tls.ClientHelloInfo{ServerName: raw})
	verifrt.Assert(gerr == nil && got != nil, "config-returned")
	if got == nil {
		return
	}
	name := strings.ToLower(sni)
	find := func(key string) *Config {
		for _, c := range cfgs {
			if zzKey(c.Hostname) == key {
				return c
			}
		}
		return nil
	}
	want := find(name)
	if want == nil {
		labels := strings.Split(name, ".")
		for i := range labels {
			labels[i] = "*"
			if c := find(strings.Join(labels, ".")); c != nil {
				want = c
				break
			}
		}
	}
	if want == nil {
		want = find("")
	}
	if want != nil {
		verifrt.Assert(got == want.tlsConfig, "most-specific-config")
	}
	// whichever site governs, the tls.Config carries exactly that site's settings
	var owner *Config
	for _, c := range cfgs {
		if c.tlsConfig == got {
			owner = c
		}
	}
	verifrt.Assert(owner != nil, "config-belongs-to-a-site")
	if owner != nil {
		verifrt.Assert(got.MinVersion == owner.ProtocolMinVersion && got.MaxVersion == owner.ProtocolMaxVersion, "versions-follow-site")
		verifrt.Assert(got.ClientAuth == owner.ClientAuth, "client-auth-follows-site")
		verifrt.Assert(got.MinVersion != 0, "minimum-version-set")
		verifrt.Assert(len(got.CipherSuites) > 0 && got.CipherSuites[0] == tls.TLS_FALLBACK_SCSV, "fallback-scsv-first")
		hasACME := false
		for _, p := range got.NextProtos {
			hasACME = hasACME || p == "acme-tls/1"
		}
		verifrt.Assert(hasACME, "acme-alpn-present")
	}
}

// VerifH06bDefaults: TLS 1.2 is the minimum unless the site configures otherwise.
func VerifH06bDefaults() {
	c := &Config{}
	c.ProtocolMinVersion = verifrt.Uint16("min")
	c.ProtocolMaxVersion = verifrt.Uint16("max")
	min0, max0 := c.ProtocolMinVersion, c.ProtocolMaxVersion
	SetDefaultTLSParams(c)
	if min0 == 0 {
		verifrt.Assert(c.ProtocolMinVersion == tls.VersionTLS12, "default-minimum-is-tls12")
	} else {
		verifrt.Assert(c.ProtocolMinVersion == min0, "configured-minimum-kept")
	}
	if max0 != 0 {
		verifrt.Assert(c.ProtocolMaxVersion == max0, "configured-maximum-kept")
	}
	verifrt.Assert(len(c.Ciphers) >= 2 && c.Ciphers[0] == tls.TLS_FALLBACK_SCSV, "ciphers-defaulted")
}

// VerifH06cRejectMixing: TLS and plaintext sites on one listener are rejected; two configs for the
// same SNI name with different settings are rejected.
func VerifH06cRejectMixing() {
	n := verifrt.IntRange("nconfigs", 2, 4)
	cfgs := make([]*Config, n)
	allSame := true
	for i := range cfgs {
		c := &Config{Hostname: []string{"a", "b", "c", "d"}[i]}
		c.Enabled = verifrt.Bool("enabled")
		if c.Enabled {
			SetDefaultTLSParams(c)
		}
		cfgs[i] = c
		if c.Enabled != cfgs[0].Enabled {
			allSame = false
		}
	}
	_, err := MakeTLSConfig(cfgs)
	verifrt.Assert(err == nil == allSame, "mixing-rejected")
}

func VerifH06cSameNameConflict() {
	mk := func() *Config {
		c := &Config{Enabled: true, Hostname: "a"}
		c.ProtocolMinVersion = zzVersions[1+verifrt.Choose("min", 4)]
		c.ProtocolMaxVersion = zzVersions[1+verifrt.Choose("max", 4)]
		c.ClientAuth = tls.ClientAuthType(verifrt.Choose("clientauth", 3))
		if verifrt.Bool("cipher") {
			c.Ciphers = []uint16{tls.TLS_ECDHE_RSA_WITH_AES_128_GCM_SHA256}
		}
		SetDefaultTLSParams(c)
		return c
	}
	a, b := mk(), mk()
	same := a.ProtocolMinVersion == b.ProtocolMinVersion && a.ProtocolMaxVersion == b.ProtocolMaxVersion &&
		a.ClientAuth == b.ClientAuth && len(a.Ciphers) == len(b.Ciphers)
	_, err := MakeTLSConfig([]*Config{a, b})
	if !same {
		verifrt.Assert(err != nil, "conflicting-same-name-rejected")
	} else {
		verifrt.Assert(err == nil, "identical-same-name-accepted")
	}
}
