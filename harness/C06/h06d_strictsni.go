//go:build verif

// verif:package caskethttp/httpserver
package httpserver

import (
	"crypto/tls"
	"net/http"
	"net/url"
	"strings"

	"github.com/tmpim/casket/caskettls"
	"github.com/tmpim/casket/zzverif/verifrt"
)

type zzRW6 struct {
	hdr    http.Header
	status int
}

func (w *zzRW6) Header() http.Header {
	if w.hdr == nil {
		w.hdr = http.Header{}
	}
	return w.hdr
}
func (w *zzRW6) WriteHeader(c int) {
	if w.status == 0 {
		w.status = c
	}
}
func (w *zzRW6) Write(p []byte) (int, error) {
	if w.status == 0 {
		w.status = 200
	}
	return len(p), nil
}

type zzRan struct{ ran *int }

func (h zzRan) ServeHTTP(w http.ResponseWriter, r *http.Request) (int, error) {
	*h.ran++
	return 0, nil
}

func zzName(name string, max int) string {
	n := verifrt.IntRange(name+"len", 1, max)
	s := verifrt.String(name, n)
	for i := 0; i < n; i++ {
		c := s[i]
		verifrt.Assume(c == 'a' || c == 'A' || c == 'b' || c == '.')
	}
	return s
}

// VerifH06dStrictSNI: a site that demands client certificates never serves a request that arrived
// over a handshake made under another name (unless strict matching was explicitly disabled).
func VerifH06dStrictSNI() {
	ran := 0
	ca := verifrt.Int("clientauth")
	verifrt.Assume(ca >= 0 && ca <= 4)
	disabled := verifrt.Bool("insecure-disable")
	site := &SiteConfig{Addr: Address{Original: "", Host: ""}, TLS: &caskettls.Config{ClientAuth: tls.ClientAuthType(ca), InsecureDisableSNIMatching: disabled},
		middlewareChain: zzRan{&ran}}
	s := &Server{Server: &http.Server{Addr: ":443"}, vhosts: newVHostTrie(), sites: []*SiteConfig{site}}
	s.vhosts.Insert("", site) // catch-all: every Host reaches this site
	host := zzName("host", 2+verifrt.Tier())
	rawHost := host
	if verifrt.Bool("port") {
		rawHost += ":443"
	}
	r := &http.Request{Method: "GET", Host: rawHost, URL: &url.URL{Path: "/"}, Header: http.Header{}, ProtoMajor: 1}
	overTLS := verifrt.Bool("tls")
	sni := ""
	if overTLS {
		if verifrt.Bool("sni-present") {
			sni = zzName("sni", 2+verifrt.Tier())
		}
		r.TLS = &tls.ConnectionState{ServerName: sni}
	}
	w := &zzRW6{}
	status, _ := s.serveHTTP(w, r)
	mismatch := overTLS && ca != 0 && !disabled && strings.ToLower(sni) != strings.ToLower(host)
	if mismatch {
		verifrt.Assert(ran == 0, "client-auth-site-not-served-under-other-name")
		verifrt.Assert(status == 403, "refused-with-403")
	} else {
		verifrt.Assert(ran == 1, "served-when-names-agree")
	}
	verifrt.Observe("sni", ran, status)
}

// VerifH06eServerGroup: the listener's site set is validated as a whole when the server is built
// (NewServer): TLS and plaintext sites are never mixed, whichever comes first, and two sites of the
// same host name (different paths) with different handshake settings are rejected instead of one of
// them silently winning.
func VerifH06eServerGroup() {
	mk := func(path string, enabled bool, ca tls.ClientAuthType) *SiteConfig {
		c := &caskettls.Config{Enabled: enabled, Hostname: "a", ClientAuth: ca}
		if enabled {
			caskettls.SetDefaultTLSParams(c)
		}
		return &SiteConfig{Addr: Address{Original: "a" + path, Host: "a", Path: path}, TLS: c}
	}
	n := verifrt.IntRange("nsites", 2, 3)
	var group []*SiteConfig
	anyTLS, anyPlain := false, false
	var auths []tls.ClientAuthType
	for i := 0; i < n; i++ {
		enabled := verifrt.Bool("tls")
		ca := tls.NoClientCert
		if enabled && verifrt.Bool("clients-require") {
			ca = tls.RequireAndVerifyClientCert
		}
		group = append(group, mk([]string{"", "/x", "/y"}[i], enabled, ca))
		anyTLS = anyTLS || enabled
		anyPlain = anyPlain || !enabled
		if enabled {
			auths = append(auths, ca)
		}
	}
	_, err := NewServer(":443", group)
	conflict := false
	for _, a := range auths {
		conflict = conflict || a != auths[0]
	}
	switch {
	case anyTLS && anyPlain:
		verifrt.Assert(err != nil, "tls-and-plaintext-never-mixed")
	case conflict:
		verifrt.Assert(err != nil, "conflicting-same-name-settings-rejected")
	default:
		verifrt.Assert(err == nil, "consistent-site-set-accepted")
	}
}

// VerifH06dStrictSNIWildcard: the same with a wildcard site that demands client certificates next
// to a more specific open site: a handshake made under the open site's name (which selects the
// open site's handshake settings) never gets a request served by the wildcard site, whatever Host
// the request then names.
func VerifH06dStrictSNIWildcard() {
	ranWild, ranOpen := 0, 0
	wild := &SiteConfig{Addr: Address{Original: "*.b", Host: "*.b"}, TLS: &caskettls.Config{Enabled: true, Hostname: "*.b", ClientAuth: tls.RequireAndVerifyClientCert},
		middlewareChain: zzRan{&ranWild}}
	open := &SiteConfig{Addr: Address{Original: "a.b", Host: "a.b"}, TLS: &caskettls.Config{Enabled: true, Hostname: "a.b"}, middlewareChain: zzRan{&ranOpen}}
	s := &Server{Server: &http.Server{Addr: ":443"}, vhosts: newVHostTrie(), sites: []*SiteConfig{wild, open}}
	s.vhosts.Insert("*.b", wild)
	s.vhosts.Insert("a.b", open)
	names := []string{"a.b", "c.b", "C.b", "d.b", "A.B", "b"}
	host := names[verifrt.Choose("host", len(names))]
	rawHost := host
	if verifrt.Bool("port") {
		rawHost += ":443"
	}
	sni := ""
	if verifrt.Bool("sni-present") {
		sni = names[verifrt.Choose("sni", len(names))]
	}
	r := &http.Request{Method: "GET", Host: rawHost, URL: &url.URL{Path: "/"}, Header: http.Header{}, ProtoMajor: 1, TLS: &tls.ConnectionState{ServerName: sni}}
	w := &zzRW6{}
	status, _ := s.serveHTTP(w, r)
	if strings.ToLower(sni) != strings.ToLower(host) {
		verifrt.Assert(ranWild == 0, "client-auth-site-not-served-under-other-name")
	}
	if strings.ToLower(host) == "a.b" {
		verifrt.Assert(ranWild == 0 && ranOpen == 1, "open-site-served-under-its-own-name")
	}
	verifrt.Assert(ranWild+ranOpen <= 1, "at-most-one-site")
	verifrt.Observe("sni", ranWild, ranOpen, status)
}
