//go:build verif

// verif:package .
package casket

import (
	"strings"
	"sync"

	"github.com/tmpim/casket/zzverif/verifrt"
)

// VerifH08aFailedLoadsThenValid: after any sequence of failed loads (syntax error, bad directive
// argument, failing startup callback, port in use) a valid configuration loads and behaves as in a
// fresh process; every failed attempt leaves no instance and no listening socket behind.
func VerifH08aFailedLoadsThenValid() {
	verifrt.Terminates()
	verifrt.Concurrent(-1)
	zzLifeRegister()
	zzLifeMu.Lock()
	zzLifeLog = nil
	zzOpenLn = map[*zzLifeLn]bool{}
	zzLifeMu.Unlock()
	instances = nil
	shutdownCallbacksOnce = sync.Once{}
	Quiet = true
	zzTwoKeys = false

	faults := []string{"parse", "setup", "startup", "listen", "listenpacket"}
	nfail := verifrt.IntRange("failed-attempts", 0, 2+verifrt.Tier())
	for i := 0; i < nfail; i++ {
		f := faults[verifrt.Choose("fault", len(faults))]
		_, err := Start(zzInput([]string{"X", "Y", "Z"}[i], f))
		verifrt.Assert(err != nil, "invalid-configuration-is-rejected")
		verifrt.Assert(len(Instances()) == 0, "failed-load-leaves-no-instance")
		verifrt.Assert(len(zzOpenLn) == 0, "failed-load-leaves-no-listener")
	}
	zzLifeMu.Lock()
	zzLifeLog = nil
	zzLifeMu.Unlock()
	inst, err := Start(zzInput("G", ""))
	verifrt.Assert(err == nil, "valid-configuration-loads-after-failures")
	if err != nil {
		return
	}
	got := strings.Join(zzSyncEvents(), ",")
	verifrt.Assert(got == "firststartup@G,startup@G,listen@G1,listen@G2", "behaves-as-in-a-fresh-process")
	verifrt.Assert(len(Instances()) == 1 && Instances()[0] == inst, "exactly-the-valid-instance-runs")
	verifrt.Assert(len(zzOpenLn) == 2, "exactly-its-listeners-are-open")
	Stop()
	inst.Wait()
	verifrt.Assert(len(zzOpenLn) == 0, "stop-closes-listeners")
	verifrt.Observe("loads", got)
}
