//go:build verif

// verif:package .
package casket

import (
	"strings"
	"sync"

	"github.com/tmpim/casket/zzverif/verifrt"
)

// VerifH08aFailedLoadsThenValid: after any sequence of failed loads (syntax error, bad directive
// argument, failing startup callback, port in use) a valid configuration loads and behaves as in a
// fresh process; every failed attempt leaves no instance and no listening socket behind.
func VerifH08aFailedLoadsThenValid() {
	verifrt.Terminates()
	verifrt.Concurrent(-1)
	zzLifeRegister()
	zzLifeMu.Lock()
	zzLifeLog = nil
	zzOpenLn = map[*zzLifeLn]bool{}
	zzLifeMu.Unlock()
	instances = nil
	shutdownCallbacksOnce = sync.Once{}
	Quiet = true
	zzTwoKeys = false

	faults := []string{"parse", "setup", "startup", "listen", "listenpacket"}
	nfail := verifrt.IntRange("failed-attempts", 0, 2+verifrt.Tier())
	for i := 0; i < nfail; i++ {
		f := faults[verifrt.Choose("fault", len(faults))]
		_, err := Start(zzInput([]string{"X", "Y", "Z"}[i], f))
		verifrt.Assert(err != nil, "invalid-configuration-is-rejected")
		verifrt.Assert(len(Instances()) == 0, "failed-load-leaves-no-instance")
		verifrt.Assert(len(zzOpenLn) == 0, "failed-load-leaves-no-listener")
	}
	zzLifeMu.Lock()
	zzLifeLog = nil
	zzLifeMu.Unlock()
	inst, err := Start(zzInput("G", ""))
	verifrt.Assert(err == nil, "valid-configuration-loads-after-failures")
	if err != nil {
		return
	}
	got := strings.Join(zzSyncEvents(), ",")
	verifrt.Assert(got == "firststartup@G,startup@G,listen@G1,listen@G2", "behaves-as-in-a-fresh-process")
	verifrt.Assert(len(Instances()) == 1 && Instances()[0] == inst, "exactly-the-valid-instance-runs")
	verifrt.Assert(len(zzOpenLn) == 2, "exactly-its-listeners-are-open")
	Stop()
	inst.Wait()
	verifrt.Assert(len(zzOpenLn) == 0, "stop-closes-listeners")
	verifrt.Observe("loads", got)
}

// VerifH08dOverlappingLoads: a load that is still inside a directive's setup when another load
// completes, and then fails, removes only itself: the instance started meanwhile keeps running,
// stays the current one and is what Stop reaches.
func VerifH08dOverlappingLoads() {
	verifrt.Terminates()
	verifrt.Concurrent(-1)
	zzLifeRegister()
	zzLifeMu.Lock()
	zzLifeLog = nil
	zzOpenLn = map[*zzLifeLn]bool{}
	zzLifeMu.Unlock()
	instances = nil
	shutdownCallbacksOnce = sync.Once{}
	Quiet = true
	zzTwoKeys = false
	zzGate, zzAtGate = make(chan struct{}), make(chan struct{})

	var before *Instance
	if verifrt.Bool("an-instance-already-runs") {
		var err error
		before, err = Start(zzInput("B", ""))
		verifrt.Assert(err == nil, "valid-configuration-loads")
	}
	done := make(chan error, 1)
	go func() {
		_, err := Start(zzInput("X", "gate"))
		done <- err
	}()
	<-zzAtGate // the failing load is inside its directive's setup
	inst, err := Start(zzInput("G", ""))
	verifrt.Assert(err == nil, "valid-configuration-loads-while-another-load-is-busy")
	close(zzGate)
	errX := <-done
	verifrt.Assert(errX != nil, "invalid-configuration-is-rejected")
	if err != nil {
		return
	}
	list := Instances()
	want := 1
	if before != nil {
		want = 2
	}
	verifrt.Assert(len(list) == want && list[len(list)-1] == inst && (before == nil || list[0] == before), "failed-load-removes-only-itself")
	Stop()
	inst.Wait()
	verifrt.Assert(len(zzOpenLn) == 0, "stop-reaches-every-running-instance")
	verifrt.Observe("instances", len(list))
}
