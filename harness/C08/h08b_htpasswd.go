//go:build verif

// verif:package caskethttp/basicauth
package basicauth

import (
	"github.com/tmpim/casket/zzverif/verifrt"
)

// VerifH08bHtpasswd: a failing load of an htpasswd file (missing or malformed) leaves nothing
// behind: a later load still completes (no lock left held), a good file still loads, and a bad
// file is not remembered as loaded.
func VerifH08bHtpasswd() {
	verifrt.Terminates()
	root := verifrt.FSRoot()
	verifrt.FSPut(root+"/good", []byte("u:{SHA}qUqP5cyxm6YcTAhz05Hph5gvu9M=\n"))
	verifrt.FSPut(root+"/bad", []byte("line-without-colon\n"))
	nfail := verifrt.IntRange("failed-attempts", 1, 2)
	for i := 0; i < nfail; i++ {
		name := []string{"missing", "bad"}[verifrt.Choose("kind", 2)]
		_, err := GetHtpasswdMatcher(name, "u", root) // a deadlock here shows up as "all goroutines are blocked"
		verifrt.Assert(err != nil, "bad-file-is-an-error")
	}
	pm, err := GetHtpasswdMatcher("good", "u", root)
	verifrt.Assert(err == nil && pm != nil, "valid-file-loads-after-failures")
	_, err = GetHtpasswdMatcher("bad", "u", root)
	verifrt.Assert(err != nil, "bad-file-not-cached-as-loaded")
}
