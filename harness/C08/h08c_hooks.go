//go:build verif

// verif:package .
package casket

import (
	"sync"

	"github.com/tmpim/casket/zzverif/verifrt"
)

// VerifH08cEventHooks: the signal-driven reload saves the registered event hooks, purges them and,
// when the reload fails, restores them: afterwards exactly the hooks registered before are
// registered, each firing once per event.
func VerifH08cEventHooks() {
	verifrt.Terminates()
	eventHooks = &sync.Map{}
	n := verifrt.IntRange("hooks", 0, 3)
	fired := make([]int, 3)
	names := []string{"h0", "h1", "h2"}
	for i := 0; i < n; i++ {
		i := i
		RegisterEventHook(names[i], func(EventName, interface{}) error { fired[i]++; return nil })
	}
	// what trapSignalsPosix does around a reload (SIGUSR1)
	old := cloneEventHooks()
	purgeEventHooks()
	EmitEvent(InstanceRestartEvent, nil)
	for i := 0; i < 3; i++ {
		verifrt.Assert(fired[i] == 0, "purged-hooks-do-not-fire")
	}
	// the new configuration registers its own hooks while it loads ...
	if verifrt.Bool("new-config-registers-hook") {
		RegisterEventHook("hnew", func(EventName, interface{}) error { fired[2] += 100; return nil })
	}
	// ... and then fails: the previous hooks come back, the new ones go
	restoreEventHooks(old)
	EmitEvent(ShutdownEvent, nil)
	for i := 0; i < 3; i++ {
		want := 0
		if i < n {
			want = 1
		}
		verifrt.Assert(fired[i] == want, "hooks-as-before-the-failed-reload")
	}
	verifrt.Observe("hooks", fired[0], fired[1], fired[2])
}
