//go:build verif

// verif:package caskethttp/httpserver
package httpserver

import (
	"github.com/tmpim/casket/zzverif/verifrt"
	"gopkg.in/natefinch/lumberjack.v2"
)

// VerifK08RollerOfAFailedReload: a reload asks for its log writers in its startup callbacks, before
// it is known to succeed. When it names the log file of a running site with other rotate_*
// values and then fails, the roller the running site writes through is the same object with the
// same settings as before.
func VerifK08RollerOfAFailedReload() {
	for k := range lumberjacks {
		delete(lumberjacks, k)
	}
	file := verifrt.FSRoot() + "/access.log"
	running := LogRoller{Filename: file, MaxSize: verifrt.Int("size"), MaxAge: verifrt.Int("age"), MaxBackups: verifrt.Int("backups"),
		Compress: verifrt.Bool("compress"), LocalTime: verifrt.Bool("localtime")}
	w1, ok := running.GetLogWriter().(*lumberjack.Logger)
	verifrt.Assert(ok && w1 != nil, "roller-created")
	if !ok {
		return
	}
	verifrt.Assert(w1.MaxSize == running.MaxSize && w1.MaxAge == running.MaxAge && w1.MaxBackups == running.MaxBackups &&
		w1.Compress == running.Compress && w1.LocalTime == running.LocalTime, "roller-has-the-configured-settings")
	// the reload that is going to fail
	reload := LogRoller{Filename: file, MaxSize: verifrt.Int("size2"), MaxAge: verifrt.Int("age2"), MaxBackups: verifrt.Int("backups2"),
		Compress: verifrt.Bool("compress2"), LocalTime: verifrt.Bool("localtime2")}
	if verifrt.Bool("other-file") {
		reload.Filename = verifrt.FSRoot() + "/other.log"
	}
	w2 := reload.GetLogWriter()
	if reload.Filename == file {
		verifrt.Assert(w2 == w1, "one-roller-per-file")
	} else {
		verifrt.Assert(w2 != w1, "one-roller-per-file")
	}
	verifrt.Assert(w1.MaxSize == running.MaxSize && w1.MaxAge == running.MaxAge && w1.MaxBackups == running.MaxBackups &&
		w1.Compress == running.Compress && w1.LocalTime == running.LocalTime, "running-roller-untouched-by-the-failed-reload")
	verifrt.Observe("same", w2 == w1)
}
