//go:build verif

// verif:package .
package casket

import (
	"strings"
	"sync"

	"github.com/tmpim/casket/casketfile"
	"github.com/tmpim/casket/zzverif/verifrt"
)

var zzTrace []string

func zzRecorder(dir string) SetupFunc {
	return func(c *Controller) error {
		var toks []string
		for c.Next() {
			toks = append(toks, c.Val())
			toks = append(toks, c.RemainingArgs()...)
		}
		zzTrace = append(zzTrace, c.Key+"|"+dir+"|"+strings.Join(toks, " "))
		return nil
	}
}

type zzCtx struct{}

func (zzCtx) InspectServerBlocks(f string, b []casketfile.ServerBlock) ([]casketfile.ServerBlock, error) {
	return b, nil
}
func (zzCtx) MakeServers() ([]Server, error) { return nil, nil }

// the server type's canonical order (deliberately not alphabetical) and a private copy of it that
// the oracle uses: the live list is what casket hands to the parser and iterates on every load
var zzDirs = []string{"gamma", "alpha", "beta"}
var zzDocumented = []string{"gamma", "alpha", "beta"}

func zzRegister() {
	if _, err := getServerType("zzverif"); err == nil {
		return // the native replay runs several vectors in one process
	}
	RegisterServerType("zzverif", ServerType{
		Directives: func() []string { return zzDirs },
		DefaultInput: func() Input { return CasketfileInput{ServerTypeName: "zzverif"} },
		NewContext:   func(inst *Instance) Context { return zzCtx{} },
	})
	for _, d := range zzDirs {
		RegisterPlugin(d, Plugin{ServerType: "zzverif", Action: zzRecorder(d)})
	}
}

// VerifH09aExecutionOrder: directives take effect in the server type's fixed order whatever the
// order of the lines in the Casketfile; lines of the same directive keep their relative order.
func VerifH09aExecutionOrder() {
	zzRegister()
	nblocks := verifrt.IntRange("nblocks", 1, 2)
	type line struct {
		dir int
		arg string
	}
	text := ""
	// line endings of the file, and optionally a quoted argument that spans two lines
	le := []string{"\n", "\r\n"}[verifrt.Choose("line-ending", 2)]
	multiline := verifrt.Bool("quoted-multiline-argument")
	var blocks [][]line
	for b := 0; b < nblocks; b++ {
		k := verifrt.IntRange("nlines", 0, 3+verifrt.Tier())
		var ls []line
		text += []string{"siteA", "siteB"}[b] + " {" + le
		for i := 0; i < k; i++ {
			l := line{dir: verifrt.Choose("dir", len(zzDocumented)), arg: []string{"x", "y", "z", "w"}[i]}
			written := l.arg
			if multiline && i == 0 {
				l.arg = "p" + le + "q" // the value between the quotes, exactly as written
				written = "\"" + l.arg + "\""
			}
			ls = append(ls, l)
			text += "\t" + zzDocumented[l.dir] + " " + written + le
		}
		text += "}" + le
		blocks = append(blocks, ls)
	}
	// optionally a rejected load came first in this process (unknown directive, or a syntax error)
	switch verifrt.Choose("rejected-load-first", 3) {
	case 1:
		if _, err := casketfile.Parse("Casketfile", strings.NewReader("siteA {\n\tgamm x\n}\n"), ValidDirectives("zzverif")); err == nil {
			verifrt.Fail("unknown-directive-rejected")
		}
	case 2:
		if _, err := casketfile.Parse("Casketfile", strings.NewReader("siteA {\n\tbeta x\n"), ValidDirectives("zzverif")); err == nil {
			verifrt.Fail("unterminated-block-rejected")
		}
	}
	sblocks, err := casketfile.Parse("Casketfile", strings.NewReader(text), ValidDirectives("zzverif"))
	if err != nil {
		verifrt.Fail("parse")
		return
	}
	zzTrace = nil
	inst := &Instance{serverType: "zzverif", wg: new(sync.WaitGroup), Storage: make(map[interface{}]interface{})}
	inst.context = zzCtx{}
	if err := executeDirectives(inst, "Casketfile", ValidDirectives("zzverif"), sblocks, false); err != nil {
		verifrt.Fail("execute")
		return
	}
	// the statement: for each directive in the fixed order, for each block in order, one setup
	// call that sees that directive's lines in written order
	var want []string
	for d := range zzDocumented {
		for b, ls := range blocks {
			var toks []string
			for _, l := range ls {
				if l.dir == d {
					toks = append(toks, zzDocumented[d], l.arg)
				}
			}
			if len(toks) > 0 {
				want = append(want, []string{"siteA", "siteB"}[b]+"|"+zzDocumented[d]+"|"+strings.Join(toks, " "))
			}
		}
	}
	verifrt.Assert(len(zzTrace) == len(want), "one-setup-call-per-directive-and-block")
	for i := range want {
		if i < len(zzTrace) {
			verifrt.Assert(zzTrace[i] == want[i], "fixed-directive-order")
		}
	}
	verifrt.Observe("trace", strings.Join(zzTrace, ";"))
}
