//go:build verif

// verif:package caskethttp/httpserver
package httpserver

import (
	"net/http"
	"net/url"

	"github.com/tmpim/casket/caskettls"
	"github.com/tmpim/casket/zzverif/verifrt"
)

type zzRW9 struct {
	hdr    http.Header
	status int
}

func (w *zzRW9) Header() http.Header {
	if w.hdr == nil {
		w.hdr = http.Header{}
	}
	return w.hdr
}
func (w *zzRW9) WriteHeader(c int)            { w.status = c }
func (w *zzRW9) Write(p []byte) (int, error) { return len(p), nil }

// VerifH09bNestingOrder: middleware registered in order m1..mk is entered outermost-first.
func VerifH09bNestingOrder() {
	k := verifrt.IntRange("k", 1, 4)
	var entered []int
	site := &SiteConfig{Addr: Address{}, TLS: &caskettls.Config{}}
	for i := 0; i < k; i++ {
		i := i
		site.AddMiddleware(func(next Handler) Handler {
			return HandlerFunc(func(w http.ResponseWriter, r *http.Request) (int, error) {
				entered = append(entered, i)
				if i == k-1 {
					w.WriteHeader(204)
					return 0, nil
				}
				return next.ServeHTTP(w, r)
			})
		})
	}
	s, err := NewServer(":80", []*SiteConfig{site})
	if err != nil {
		verifrt.Fail("new-server")
		return
	}
	w := &zzRW9{}
	s.ServeHTTP(w, &http.Request{Method: "GET", Host: "h", URL: &url.URL{Path: "/"}, Header: http.Header{}, RemoteAddr: "1.2.3.4:5"})
	verifrt.Assert(len(entered) == k, "every-middleware-entered-once")
	for i := range entered {
		verifrt.Assert(entered[i] == i, "outermost-first")
	}
	verifrt.Assert(w.status == 204, "innermost-response-delivered")
}

func zzIndexOf(name string) int {
	for i, d := range directives {
		if d == name {
			return i
		}
	}
	return -1
}

// VerifH09cDocumentedOrder: the fixed list has no duplicates and respects the documented
// relative order (rewriting before authentication; authentication, redirects and internal before
// every content handler; logging, compression, headers and error pages around all of them).
func VerifH09cDocumentedOrder() {
	seen := map[string]bool{}
	for _, d := range directives {
		verifrt.Assert(!seen[d], "no-duplicate-directive")
		seen[d] = true
	}
	before := func(a, b string) {
		ia, ib := zzIndexOf(a), zzIndexOf(b)
		verifrt.Assert(ia >= 0 && ib >= 0, "standard-directive-listed")
		verifrt.Assert(ia < ib, "documented-relative-order")
	}
	content := []string{"proxy", "fastcgi", "templates", "browse", "markdown", "websocket", "push", "mime"}
	for _, rw := range []string{"rewrite", "tryfiles", "ext"} {
		before(rw, "basicauth")
		before(rw, "internal")
	}
	for _, gate := range []string{"basicauth", "redir", "internal"} {
		for _, c := range content {
			if c == "mime" && gate == "internal" {
				continue // mime only sets a response header type; it sits between the gates
			}
			before(gate, c)
		}
	}
	for _, outer := range []string{"log", "gzip", "header", "errors"} {
		for _, c := range append(content, "basicauth", "redir", "internal") {
			before(outer, c)
		}
	}
	before("log", "gzip")
	before("gzip", "errors")
	for _, early := range []string{"root", "index", "bind", "limits", "timeouts", "tls"} {
		before(early, "log")
	}
	// the documented order itself: the standard directives (those this repository registers), as the
	// list has them at the pinned version. A new third-party name in between does not disturb this; a
	// change in the relative order of two standard directives changes what sites do.
	documented := []string{"root", "index", "bind", "limits", "timeouts", "tls", "startup", "shutdown", "on", "request_id", "log", "tryfiles",
		"rewrite", "ext", "gzip", "header", "errors", "basicauth", "redir", "status", "mime", "internal", "pprof", "expvar", "push", "templates",
		"proxy", "fastcgi", "websocket", "markdown", "browse"}
	for i := 1; i < len(documented); i++ {
		ia, ib := zzIndexOf(documented[i-1]), zzIndexOf(documented[i])
		verifrt.Assert(ia >= 0 && ib >= 0 && ia < ib, "standard-directives-in-documented-sequence")
	}
}
