//go:build verif

// verif:package casketfile
package casketfile

import (
	"strings"

	"github.com/tmpim/casket/zzverif/verifrt"
)

// VerifH09dImportedLines: wherever an import line (of a file or of a snippet) stands among a
// block's directive lines, every directive receives exactly the lines written for it -- its own
// and the imported ones -- each with exactly its own arguments, as a directive's setup reads them
// through the dispenser. The imported file's line numbers may coincide with the block's.
func VerifH09dImportedLines() {
	verifrt.Terminates()
	verifrt.Budget(600000)
	root := verifrt.FSRoot()
	blank := strings.Repeat("\n", verifrt.Choose("blank-lines-in-import", 4))
	body := blank + "rewrite /a /b\nheader x y\n"
	snippet := verifrt.Bool("snippet")
	head, imp := "", "import inc.conf"
	if snippet {
		head, imp = "(s) {\n"+body+"}\n", "import s"
	} else {
		verifrt.FSPut(root+"/inc.conf", []byte(body))
	}
	lines := []string{"root r", "rewrite /old /new", imp}
	perm := [][3]int{{0, 1, 2}, {0, 2, 1}, {1, 0, 2}, {1, 2, 0}, {2, 0, 1}, {2, 1, 0}}[verifrt.Choose("order", 6)]
	text := head + "site {\n"
	for _, i := range perm {
		text += lines[i] + "\n"
	}
	text += "}\n"
	blocks, err := Parse(root+"/Casketfile", strings.NewReader(text), []string{"root", "rewrite", "header"})
	verifrt.Assert(err == nil, "parse")
	if err != nil {
		return
	}
	verifrt.Assert(len(blocks) == 1, "one-block")
	got := map[string][]string{}
	for dir, toks := range blocks[0].Tokens {
		d := NewDispenserTokens("Casketfile", toks)
		for d.Next() {
			verifrt.Assert(d.Val() == dir, "each-line-starts-with-its-directive")
			got[dir] = append(got[dir], strings.Join(d.RemainingArgs(), " "))
		}
	}
	verifrt.Assert(len(got) == 3, "three-directives")
	verifrt.Assert(len(got["root"]) == 1 && got["root"][0] == "r", "own-line-intact")
	verifrt.Assert(len(got["header"]) == 1 && got["header"][0] == "x y", "imported-line-intact")
	rw := got["rewrite"]
	importFirst := false
	for _, i := range perm {
		if i == 1 {
			break
		}
		if i == 2 {
			importFirst = true
		}
	}
	verifrt.Assert(len(rw) == 2, "own-and-imported-lines-stay-separate-lines")
	if len(rw) == 2 {
		if importFirst {
			verifrt.Assert(rw[0] == "/a /b" && rw[1] == "/old /new", "lines-in-written-order")
		} else {
			verifrt.Assert(rw[0] == "/old /new" && rw[1] == "/a /b", "lines-in-written-order")
		}
	}
	verifrt.Observe("lines", len(rw))
}
