//go:build verif

// verif:package casketfile
package casketfile

import (
	"unicode/utf8"
	"bytes"
	"strings"

	"github.com/tmpim/casket/zzverif/verifrt"
)

func zzIn(b byte, alphabet string) bool {
	ok := false
	for i := 0; i < len(alphabet); i++ {
		ok = ok || b == alphabet[i]
	}
	return ok
}

// VerifH10aLexer: the lexer is total on raw bytes; token lines are non-decreasing and bounded by
// the number of newlines; every token's text is made of input characters.
func VerifH10aLexer() {
	n := verifrt.IntRange("len", 0, 4+verifrt.Tier())
	data := verifrt.Bytes("src", n)
	for i := 0; i < n; i++ {
		verifrt.Assume(zzIn(data[i], "a \n\"\\#{}\r"))
	}
	toks, err := allTokens(bytes.NewReader(data))
	if n == 0 {
		return // empty input: load reports EOF, no tokens
	}
	verifrt.Assert(err == nil, "no-error-on-ascii")
	nl := 0
	for _, b := range data {
		if b == '\n' {
			nl++
		}
	}
	prev := 1
	total := 0
	for _, t := range toks {
		verifrt.Assert(t.Line >= prev, "lines-non-decreasing")
		verifrt.Assert(t.Line <= 1+nl, "line-within-input")
		prev = t.Line
		total += len(t.Text)
	}
	verifrt.Assert(total <= n, "tokens-not-longer-than-input")
	verifrt.Observe("ntok", len(toks))
}

// VerifH10aLexerAnyByte: all byte values (UTF-8 decoding, BOM), shorter.
func VerifH10aLexerAnyByte() {
	n := verifrt.IntRange("len", 0, 2+verifrt.Tier())
	data := verifrt.Bytes("src", n)
	toks, _ := allTokens(bytes.NewReader(data))
	// reference: text that is valid UTF-8 and has no quote, comment or escape character consists of
	// the whitespace-separated words, exactly as written (whitespace in the Unicode sense, by
	// character -- not by byte)
	// (the comparison is made for inputs of at most 2 bytes: with 3 symbolic bytes the UTF-8 table
	// look-ups left solver queries undecided; longer inputs are checked for totality only)
	plain := n <= 2 && utf8.Valid(data) && (n == 0 || data[0] != 0xEF)
	for _, b := range data {
		// (a carriage return is dropped by the lexer wherever it stands -- the CRLF convention; a lone
		// CR inside a word is neither separator nor text, so such inputs are left to the totality check)
		plain = plain && b != '"' && b != '#' && b != '\\' && b != '\r'
	}
	if plain {
		want := strings.Fields(string(data))
		ok := len(toks) == len(want)
		for i := range want {
			ok = ok && i < len(toks) && toks[i].Text == want[i]
		}
		verifrt.Assert(ok, "unquoted-words-exactly-as-written")
	}
	verifrt.Observe("ntok", len(toks))
}

var zzVocab = []string{"{", "}", "a", "a,", "dir", ""}

func zzTokens(vocab []string, max int) []Token {
	k := verifrt.IntRange("ntokens", 0, max)
	toks := make([]Token, k)
	line := 1
	for i := range toks {
		if i > 0 && verifrt.Bool("newline") {
			line++
		}
		toks[i] = Token{File: "Casketfile", Line: line, Text: vocab[verifrt.Choose("tok", len(vocab))]}
	}
	return toks
}

// VerifH10bParserTokens: the parser is total and terminating on every token sequence over the
// structural vocabulary; on success the structure is exactly what was written.
func VerifH10bParserTokens() {
	verifrt.Terminates()
	verifrt.Budget(400000)
	toks := zzTokens(zzVocab, 4+2*verifrt.Tier())
	var valid []string
	if verifrt.Bool("validate") {
		valid = []string{"dir"}
	}
	orig := append([]Token{}, toks...)
	p := parser{Dispenser: NewDispenserTokens("Casketfile", toks), validDirectives: valid}
	blocks, err := p.parseAll()
	if err != nil {
		msg := err.Error()
		verifrt.Assert(strings.Contains(msg, "Casketfile:"), "error-names-file-and-line")
		verifrt.Observe("err", true)
		return
	}
	// keys: every key of every block is the text of a written token (trailing comma stripped), in order
	ki := 0
	for _, b := range blocks {
		for _, key := range b.Keys {
			found := false
			for ki < len(orig) {
				t := orig[ki].Text
				ki++
				if t == key || t == key+"," {
					found = true
					break
				}
			}
			verifrt.Assert(found, "keys-are-written-tokens-in-order")
		}
		// every directive's tokens are written tokens, and the first names the directive
		for dir, ts := range b.Tokens {
			verifrt.Assert(len(ts) > 0 && ts[0].Text == dir, "directive-name-first")
			if valid != nil {
				verifrt.Assert(dir == "dir", "only-valid-directives")
			}
			// the directive's tokens are written tokens, in written order
			oi := 0
			for _, t := range ts {
				found := false
				for oi < len(orig) {
					o := orig[oi]
					oi++
					if o.Text == t.Text && o.Line == t.Line {
						found = true
						break
					}
				}
				verifrt.Assert(found, "directive-tokens-as-written")
			}
		}
	}
	verifrt.Observe("blocks", len(blocks))
}

var zzImportVocab = []string{"{", "}", "(s)", "import", "s", "a"}

// VerifH10bSnippets: same, with snippet definitions and imports of snippets in the vocabulary.
func VerifH10bSnippets() {
	verifrt.Terminates()
	verifrt.Budget(400000)
	toks := zzTokens(zzImportVocab, 5+verifrt.Tier())
	p := parser{Dispenser: NewDispenserTokens("Casketfile", toks)}
	blocks, err := p.parseAll()
	if err != nil {
		verifrt.Assert(strings.Contains(err.Error(), "Casketfile:"), "error-names-file-and-line")
		return
	}
	for _, b := range blocks {
		for dir := range b.Tokens {
			verifrt.Assert(dir != "import", "imports-are-expanded")
		}
	}
	verifrt.Observe("blocks", len(blocks))
}

// VerifH10bSnippetUse: structured inputs: one or two snippet definitions whose bodies are arbitrary
// short token lines (possibly importing snippets), then a server block importing a snippet.
func VerifH10bSnippetUse() {
	verifrt.Terminates()
	verifrt.Budget(60000)
	body := []string{"import", "s", "t", "a"}
	var toks []Token
	line := 1
	add := func(text string, newline bool) {
		if newline {
			line++
		}
		toks = append(toks, Token{File: "Casketfile", Line: line, Text: text})
	}
	nsnip := verifrt.IntRange("nsnippets", 1, 2)
	for k := 0; k < nsnip; k++ {
		add([]string{"(s)", "(t)"}[k], k > 0)
		add("{", false)
		n := verifrt.IntRange("bodylen", 0, 2+verifrt.Tier())
		for i := 0; i < n; i++ {
			add(body[verifrt.Choose("btok", len(body))], verifrt.Bool("newline"))
		}
		add("}", true)
	}
	add("a", true)
	add("{", false)
	add("import", true)
	useIdx := verifrt.Choose("use", 2)
	add([]string{"s", "t"}[useIdx], false)
	add("}", true)
	hasImport := false
	for _, t := range toks[:len(toks)-5] {
		hasImport = hasImport || t.Text == "import"
	}
	for i, t := range toks[:len(toks)-5] {
		if t.Text == "import" && (toks[i+1].Text == "s" || toks[i+1].Text == "t") {
			// a snippet body imports a snippet: the input class of the recorded known finding (cycles)
			verifrt.Tag("snippet-imports-snippet")
		}
	}
	p := parser{Dispenser: NewDispenserTokens("Casketfile", toks)}
	blocks, err := p.parseAll()
	if !hasImport && useIdx < nsnip {
		// snippets made of plain directive lines (possibly empty), the imported one defined: well-formed
		verifrt.Assert(err == nil, "well-formed-snippet-use-parses")
	}
	if err != nil {
		verifrt.Assert(strings.Contains(err.Error(), "Casketfile:"), "error-names-file-and-line")
		return
	}
	verifrt.Assert(len(blocks) == 1 && len(blocks[0].Keys) == 1 && blocks[0].Keys[0] == "a", "one-server-block")
	for dir := range blocks[0].Tokens {
		verifrt.Assert(dir != "import", "imports-are-expanded")
	}
	verifrt.Observe("ndirs", len(blocks[0].Tokens))
}

// VerifH10cImportFile: a directive line means the same inline and imported from a file.
func VerifH10cImportFile() {
	verifrt.Terminates()
	verifrt.Budget(600000)
	arg := verifrt.String("arg", 1)
	verifrt.Assume(zzIn(arg[0], "ab1"))
	line := "dir " + arg + " x"
	root := verifrt.FSRoot()
	verifrt.FSPut(root+"/inc.conf", []byte(line+"\n"))
	inline, err1 := Parse(root+"/Casketfile", strings.NewReader("a {\n"+line+"\n}\n"), nil)
	imported, err2 := Parse(root+"/Casketfile", strings.NewReader("a {\nimport inc.conf\n}\n"), nil)
	verifrt.Assert(err1 == nil && err2 == nil, "both-parse")
	if err1 != nil || err2 != nil {
		return
	}
	verifrt.Assert(len(inline) == 1 && len(imported) == 1, "one-block-each")
	a, b := inline[0].Tokens["dir"], imported[0].Tokens["dir"]
	verifrt.Assert(len(a) == len(b) && len(a) == 3, "same-token-count")
	for i := range a {
		if i < len(b) {
			verifrt.Assert(a[i].Text == b[i].Text, "same-token-text")
		}
	}
	// a file that does not exist is an error naming the file
	_, err3 := Parse(root+"/Casketfile", strings.NewReader("a {\nimport missing.conf\n}\n"), nil)
	verifrt.Assert(err3 != nil, "missing-import-is-error")
}

// VerifH10cImportLayouts: relative imports resolve against the directory of the importing file, so
// the same import text in two directories names two files; an imported file's directives land in
// the block that imports it, in order, attributed to their own file. Import cycles between files
// (a file importing itself, two files importing each other) must end in an error, not in a loop.
func VerifH10cImportLayouts() {
	verifrt.Terminates()
	verifrt.Budget(600000)
	root := verifrt.FSRoot()
	switch verifrt.Choose("layout", 3) {
	case 0:
		verifrt.FSPut(root+"/common.conf", []byte("dir2 top\n"))
		verifrt.FSPut(root+"/sub/common.conf", []byte("dir1 inner\n"))
		verifrt.FSPut(root+"/sub/a.conf", []byte("import common.conf\ndir3 z\n"))
		first, second := "import sub/a.conf", "import common.conf"
		swapped := verifrt.Bool("swapped")
		if swapped {
			first, second = second, first
		}
		text := "a {\n" + first + "\n}\nb {\n" + second + "\n}\n"
		if verifrt.Bool("one-block") {
			text = "a {\n" + first + "\n" + second + "\n}\n"
		}
		blocks, err := Parse(root+"/Casketfile", strings.NewReader(text), nil)
		verifrt.Assert(err == nil, "imports-parse")
		if err != nil {
			return
		}
		var d1, d2, d3 []Token
		for _, b := range blocks {
			d1 = append(d1, b.Tokens["dir1"]...)
			d2 = append(d2, b.Tokens["dir2"]...)
			d3 = append(d3, b.Tokens["dir3"]...)
		}
		verifrt.Assert(len(d1) == 2 && d1[1].Text == "inner" && strings.HasSuffix(d1[1].File, "/sub/common.conf"), "relative-import-resolved-next-to-the-importing-file")
		verifrt.Assert(len(d2) == 2 && d2[1].Text == "top" && strings.HasSuffix(d2[1].File, "/common.conf") && !strings.HasSuffix(d2[1].File, "/sub/common.conf"), "same-import-text-in-another-directory-names-another-file")
		verifrt.Assert(len(d3) == 2 && d3[1].Text == "z" && strings.HasSuffix(d3[1].File, "/sub/a.conf"), "imported-directive-attributed-to-its-file")
		if len(blocks) == 2 {
			inA := len(blocks[0].Tokens["dir1"]) > 0
			verifrt.Assert(inA != swapped && (len(blocks[1].Tokens["dir2"]) > 0) != swapped, "imported-directives-land-in-the-importing-block")
		}
	case 1:
		verifrt.Tag("file-import-cycle")
		verifrt.FSPut(root+"/inc.conf", []byte("dir1 x\nimport inc.conf\n"))
		_, err := Parse(root+"/Casketfile", strings.NewReader("a {\nimport inc.conf\n}\n"), nil)
		verifrt.Assert(err != nil, "import-cycle-is-an-error")
	default:
		verifrt.Tag("file-import-cycle")
		verifrt.FSPut(root+"/a.conf", []byte("dir1 x\nimport b.conf\n"))
		verifrt.FSPut(root+"/b.conf", []byte("import a.conf\n"))
		_, err := Parse(root+"/Casketfile", strings.NewReader("a {\nimport a.conf\n}\n"), nil)
		verifrt.Assert(err != nil, "import-cycle-is-an-error")
	}
}

// VerifH10cQuotedLayout: line breaks, blanks and backslashes inside a quoted argument do not change
// the structure: the next directive stays its own directive and the argument text is exactly as written.
func VerifH10cQuotedLayout() {
	n := verifrt.IntRange("qlen", 0, 3+verifrt.Tier())
	q := verifrt.String("q", n)
	for i := 0; i < n; i++ {
		verifrt.Assume(zzIn(q[i], "a\n\r\\ #"))
	}
	// a trailing backslash would escape the closing quote: that is a different text
	verifrt.Assume(n == 0 || q[n-1] != '\\')
	text := "site {\n\tdir1 \"" + q + "\"\n\tdir2 arg\n}\n"
	blocks, err := Parse("Casketfile", strings.NewReader(text), nil)
	verifrt.Assert(err == nil, "parses")
	if err != nil {
		return
	}
	verifrt.Assert(len(blocks) == 1 && len(blocks[0].Keys) == 1 && blocks[0].Keys[0] == "site", "one-block")
	d1, d2 := blocks[0].Tokens["dir1"], blocks[0].Tokens["dir2"]
	verifrt.Assert(len(d1) == 2 && d1[0].Text == "dir1" && d1[1].Text == q, "quoted-argument-as-written")
	verifrt.Assert(len(d2) == 2 && d2[0].Text == "dir2" && d2[1].Text == "arg", "next-directive-separate")
	if len(d2) == 2 {
		nl := strings.Count(q, "\n")
		verifrt.Assert(d2[0].Line == 3+nl, "line-numbers-count-quoted-breaks")
	}
}

// VerifH10dEnv: environment placeholders are replaced by their values; expansion terminates.
func VerifH10dEnv() {
	verifrt.Terminates()
	verifrt.Budget(400000)
	n := verifrt.IntRange("len", 0, 5+verifrt.Tier())
	s := verifrt.String("tok", n)
	for i := 0; i < n; i++ {
		verifrt.Assume(zzIn(s[i], "{}$%V"))
	}
	vl := verifrt.IntRange("vlen", 0, 4)
	val := verifrt.String("val", vl)
	for i := 0; i < vl; i++ {
		verifrt.Assume(zzIn(val[i], "{}$V"))
	}
	verifrt.Env("V", val)
	out := replaceEnvVars(s)
	if s == "{$V}" || s == "{%V%}" {
		verifrt.Assert(out == val, "reference-replaced-by-value")
	}
	if !strings.Contains(s, "{$") && !strings.Contains(s, "{%") {
		verifrt.Assert(out == s, "no-reference-unchanged")
	}
	verifrt.Observe("out", out)
}

// VerifH10bTwoSnippets: two snippets, each imported by its own server block (the earlier-defined
// one first), with directive lines after the imports: every block ends up with exactly the lines of
// the snippet it imports followed by its own, in order -- the snippet bodies are not disturbed by the
// splicing of earlier imports.
func VerifH10bTwoSnippets() {
	verifrt.Terminates()
	verifrt.Budget(200000)
	var toks []Token
	line := 0
	add := func(newline bool, texts ...string) {
		if newline {
			line++
		}
		for _, t := range texts {
			toks = append(toks, Token{File: "Casketfile", Line: line, Text: t})
		}
	}
	dirs := []string{"x", "y"}
	args := []string{"1", "2"}
	type ln struct{ dir, arg string }
	bodies := make([][]ln, 2)
	for k := 0; k < 2; k++ {
		add(true, []string{"(s)", "(t)"}[k], "{")
		n := verifrt.IntRange("bodylines", 1, 2)
		for i := 0; i < n; i++ {
			l := ln{dirs[verifrt.Choose("dir", 2)], args[verifrt.Choose("arg", 2)] + []string{"s", "t"}[k]}
			bodies[k] = append(bodies[k], l)
			add(true, l.dir, l.arg)
		}
		add(true, "}")
	}
	own := make([][]ln, 2)
	order := []int{0, 1}
	if verifrt.Bool("later-snippet-first") {
		order = []int{1, 0}
	}
	for bi, k := range order {
		add(true, []string{"a", "b"}[bi], "{")
		add(true, "import", []string{"s", "t"}[k])
		m := verifrt.IntRange("ownlines", 0, 2)
		for i := 0; i < m; i++ {
			l := ln{dirs[verifrt.Choose("owndir", 2)], "o" + []string{"a", "b"}[bi]}
			own[bi] = append(own[bi], l)
			add(true, l.dir, l.arg)
		}
		add(true, "}")
	}
	p := parser{Dispenser: NewDispenserTokens("Casketfile", toks)}
	blocks, err := p.parseAll()
	verifrt.Assert(err == nil, "well-formed-snippet-use-parses")
	if err != nil {
		return
	}
	verifrt.Assert(len(blocks) == 2, "two-server-blocks")
	if len(blocks) != 2 {
		return
	}
	for bi, k := range order {
		want := map[string][]string{}
		for _, l := range append(append([]ln{}, bodies[k]...), own[bi]...) {
			want[l.dir] = append(want[l.dir], l.dir, l.arg)
		}
		got := blocks[bi].Tokens
		verifrt.Assert(len(blocks[bi].Keys) == 1 && blocks[bi].Keys[0] == []string{"a", "b"}[bi], "block-keys-as-written")
		verifrt.Assert(len(got) == len(want), "directives-as-written")
		for d, w := range want {
			g := got[d]
			ok := len(g) == len(w)
			for i := range w {
				ok = ok && i < len(g) && g[i].Text == w[i]
			}
			verifrt.Assert(ok, "snippet-lines-then-own-lines-in-order")
		}
	}
	verifrt.Observe("blocks", len(blocks))
}
