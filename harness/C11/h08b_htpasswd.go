//go:build verif

// verif:package caskethttp/basicauth
package basicauth

import (
	"github.com/tmpim/casket/zzverif/verifrt"
)

// VerifH08bHtpasswd: a failing load of an htpasswd file (missing, malformed, or a directory) leaves nothing
// behind: a later load still completes (no lock left held), a good file still loads, and a bad
// file is not remembered as loaded.
func VerifH08bHtpasswd() {
	verifrt.Terminates()
	htpasswords = nil // a fresh process (natively several vectors share one)
	root := verifrt.FSRoot()
	verifrt.FSPut(root+"/good", []byte("u:{SHA}qUqP5cyxm6YcTAhz05Hph5gvu9M=\n"))
	verifrt.FSPut(root+"/bad", []byte("line-without-colon\n"))
	verifrt.FSPut(root+"/dir/inside", []byte("u:{SHA}qUqP5cyxm6YcTAhz05Hph5gvu9M=\n")) // "dir" names a directory
	nfail := verifrt.IntRange("failed-attempts", 1, 2)
	for i := 0; i < nfail; i++ {
		name := []string{"missing", "bad", "dir"}[verifrt.Choose("kind", 3)]
		_, err := GetHtpasswdMatcher(name, "u", root) // a deadlock here shows up as "all goroutines are blocked"
		verifrt.Assert(err != nil, "bad-file-is-an-error")
	}
	pm, err := GetHtpasswdMatcher("good", "u", root)
	verifrt.Assert(err == nil && pm != nil, "valid-file-loads-after-failures")
	_, err = GetHtpasswdMatcher("bad", "u", root)
	verifrt.Assert(err != nil, "bad-file-not-cached-as-loaded")
}

// VerifH08bHtpasswdRepaired: a load that fails on a malformed line (after a valid one) leaves nothing
// of that file behind: once the file is repaired in place a further load sees exactly the repaired
// contents -- the user after the formerly bad line is found, a user that was removed is not.
func VerifH08bHtpasswdRepaired() {
	verifrt.Terminates()
	htpasswords = nil // a fresh process (natively several vectors share one)
	root := verifrt.FSRoot()
	verifrt.FSPut(root+"/pw", []byte("old:{SHA}qUqP5cyxm6YcTAhz05Hph5gvu9M=\nline-without-colon\nlate:{SHA}qUqP5cyxm6YcTAhz05Hph5gvu9M=\n"))
	nfail := verifrt.IntRange("failed-attempts", 1, 2)
	for i := 0; i < nfail; i++ {
		_, err := GetHtpasswdMatcher("pw", []string{"old", "late"}[verifrt.Choose("user", 2)], root)
		verifrt.Assert(err != nil, "malformed-file-is-an-error")
	}
	verifrt.FSPut(root+"/pw", []byte("new:{SHA}qUqP5cyxm6YcTAhz05Hph5gvu9M=\nlate:{SHA}qUqP5cyxm6YcTAhz05Hph5gvu9M=\n"))
	pm, err := GetHtpasswdMatcher("pw", "late", root)
	verifrt.Assert(err == nil && pm != nil, "repaired-file-loads-completely")
	_, err = GetHtpasswdMatcher("pw", "old", root)
	verifrt.Assert(err != nil, "nothing-of-the-failed-load-is-kept")
}
