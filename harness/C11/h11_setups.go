//go:build verif

// verif:package caskethttp
package caskethttp

import (
	"github.com/tmpim/casket"
	"github.com/tmpim/casket/casketfile"
	"github.com/tmpim/casket/caskethttp/httpserver"
	"github.com/tmpim/casket/caskettls"
	"github.com/tmpim/casket/zzverif/verifrt"
)

var zzGeneric = []string{"", "0", "-1", "1s", "x", "/"}

// zzSetupTotal drives one directive's setup function with an arbitrary short token structure drawn
// from that directive's own keyword vocabulary plus generic values: the setup must return (error
// or nil) without panicking and within the instruction budget.
func zzSetupTotal(dir, pkg string, keywords []string) {
	verifrt.Terminates()
	verifrt.Budget(3000000)
	verifrt.TolerateUnsupported()
	vocab := append(append([]string{}, keywords...), zzGeneric...)
	pick := func(name string) string { return vocab[verifrt.Choose(name, len(vocab))] }
	tok := func(line int, text string) casketfile.Token {
		return casketfile.Token{File: "Casketfile", Line: line, Text: text}
	}
	toks := []casketfile.Token{tok(1, dir)}
	// shapes 0..4 draw from the vocabulary; shape 5 puts, at one argument position, a string literal
	// taken from the directive package's current code (or nothing) followed by 1 (2 thorough) arbitrary
	// bytes -- prefixes, units and schemes the setup compares against, cut short or extended
	switch verifrt.Choose("shape", 6+verifrt.Tier()) {
	case 5:
		d := verifrt.DictString("dict", pkg, 1+verifrt.Tier())
		switch verifrt.Choose("dictpos", 3+verifrt.Tier()) {
		case 0: // dir D
			toks = append(toks, tok(1, d))
		case 1: // dir / D
			toks = append(toks, tok(1, "/"), tok(1, d))
		case 2: // dir { \n D \n }
			toks = append(toks, tok(1, "{"), tok(2, d), tok(3, "}"))
		default: // thorough: dir / { \n K D \n }
			if len(keywords) > 20 {
				return
			}
			toks = append(toks, tok(1, "/"), tok(1, "{"), tok(2, keywords[verifrt.Choose("k", len(keywords))]), tok(2, d), tok(3, "}"))
		}
	case 0: // dir
		if verifrt.Bool("same-line-twice") {
			// the same directive line written twice (two sites importing one snippet, or a repeated line)
			t1, t2 := pick("t1"), pick("t2")
			toks = append(toks, tok(1, t1), tok(1, t2), tok(2, dir), tok(2, t1), tok(2, t2))
		}
	case 1: // dir T1 [T2]
		toks = append(toks, tok(1, pick("t1")))
		if verifrt.Bool("second") {
			toks = append(toks, tok(1, pick("t2")))
		}
	case 2: // dir { \n T1 [T2] \n }
		toks = append(toks, tok(1, "{"), tok(2, pick("t1")))
		if verifrt.Bool("second") {
			toks = append(toks, tok(2, pick("t2")))
		}
		toks = append(toks, tok(3, "}"))
	case 3: // dir T1 { \n T2 \n }   (possibly unterminated)
		toks = append(toks, tok(1, pick("t1")), tok(1, "{"), tok(2, pick("t2")))
		if verifrt.Bool("closed") {
			toks = append(toks, tok(3, "}"))
		}
	case 4: // dir { \n T1 T2 T3 \n }  (only for small vocabularies in the quick tier)
		if len(vocab) > 16 && verifrt.Tier() == 0 {
			// large vocabularies: a sub-directive followed by two value-like arguments (entries that are
			// not plain lower-case words: versions, sizes, files, addresses, plus the generic values)
			var values []string
			for _, v := range vocab {
				word := v != ""
				for i := 0; i < len(v); i++ {
					word = word && (v[i] >= 'a' && v[i] <= 'z' || v[i] == '_')
				}
				if !word {
					values = append(values, v)
				}
			}
			toks = append(toks, tok(1, "{"), tok(2, pick("t1")), tok(2, values[verifrt.Choose("v2", len(values))]), tok(2, values[verifrt.Choose("v3", len(values))]), tok(3, "}"))
			break
		}
		toks = append(toks, tok(1, "{"), tok(2, pick("t1")), tok(2, pick("t2")), tok(2, pick("t3")), tok(3, "}"))
	default: // thorough: dir T1 { \n T2 T3 \n T4 \n }
		if len(vocab) > 14 {
			return // (vocab^4 structures: only for the smaller vocabularies; the large ones did not finish in 50 minutes)
		}
		toks = append(toks, tok(1, pick("t1")), tok(1, "{"), tok(2, pick("t2")), tok(2, pick("t3")), tok(3, pick("t4")), tok(4, "}"))
	}
	c := casket.NewTestController("http", "")
	c.Dispenser = casketfile.NewDispenserTokens("Casketfile", toks)
	setup, err := casket.DirectiveAction("http", dir)
	if err != nil {
		verifrt.Fail("directive-registered")
		return
	}
	for _, t := range toks {
		if dir == "tls" && t.Text == "clients" {
			// client CA files are only opened when the listener is built: the input class of the recorded
			// known finding (validation accepts a `clients` file that a start then fails to read)
			verifrt.Tag("tls-clients-ca-file")
		}
	}
	err = setup(c) // a panic escaping here is the violation
	if err == nil && dir == "tls" {
		// validation stops here; a real start goes on to build the listener's TLS configuration from
		// what the directive stored. Both must agree on whether the directive is acceptable.
		if cfg := httpserver.GetConfig(c).TLS; cfg != nil && cfg.Enabled {
			_, serr := caskettls.MakeTLSConfig([]*caskettls.Config{cfg})
			verifrt.Assert(serr == nil, "start-accepts-what-validate-accepted")
		}
	}
	// goroutines the setup started run until they block; a panic there crashes the server too
	verifrt.DrainGoroutines()
	// tls `load <dir>` walks the file system: natively that is the machine's real tree (e.g. "/"),
	// under the engine the empty in-memory one, so only "returned without crashing" is compared there
	envDependent := false
	for _, t := range toks {
		envDependent = envDependent || (dir == "tls" && t.Text == "load")
	}
	verifrt.Observe("setup", err != nil || envDependent)
}

func VerifH11Basicauth() { zzSetupTotal("basicauth", "github.com/tmpim/casket/caskethttp/basicauth", []string{"exclude", "realm", "/", "user", "pw", "htpasswd=f"}) }

func VerifH11Bind() { zzSetupTotal("bind", "github.com/tmpim/casket/caskethttp/bind", []string{"127.0.0.1", "host"}) }

func VerifH11Browse() { zzSetupTotal("browse", "github.com/tmpim/casket/caskethttp/browse", []string{"buffer", "path", "servearchive", "tplfile", "/", "t.tpl", "zip", "tar", "0", "-1"}) }

func VerifH11Errors() { zzSetupTotal("errors", "github.com/tmpim/casket/caskethttp/errors", []string{"*", "visible", "}", "404", "err.html", "log.txt", "syslog://h", "stdout", "rotate_size", "0"}) }

func VerifH11Expvar() { zzSetupTotal("expvar", "github.com/tmpim/casket/caskethttp/expvar", []string{"/a"}) }

func VerifH11Ext() { zzSetupTotal("ext", "github.com/tmpim/casket/caskethttp/extensions", []string{".html", "html"}) }

func VerifH11Fastcgi() { zzSetupTotal("fastcgi", "github.com/tmpim/casket/caskethttp/fastcgi", []string{"connect_timeout", "env", "except", "ext", "index", "php", "read_timeout", "root", "send_timeout", "split", "upstream", "/", "127.0.0.1:9000", "unix:/s", "1s", "0", ".php", "K V", "pool", "2"}) }

func VerifH11Gzip() { zzSetupTotal("gzip", "github.com/tmpim/casket/caskethttp/gzip", []string{"/", "ext", "level", "min_length", "not", ".txt", "*", "5", "0", "/a"}) }

func VerifH11Header() { zzSetupTotal("header", "github.com/tmpim/casket/caskethttp/header", []string{"/", "X-A", "v", "-X-A", "+X-A"}) }

func VerifH11Index() { zzSetupTotal("index", "github.com/tmpim/casket/caskethttp/index", []string{"a.html"}) }

func VerifH11Internal() { zzSetupTotal("internal", "github.com/tmpim/casket/caskethttp/internalsrv", []string{"/a", "a"}) }

func VerifH11Limits() { zzSetupTotal("limits", "github.com/tmpim/casket/caskethttp/limits", []string{"body", "header", "/a", "1kb", "0", "-1", "99999999999999999999"}) }

func VerifH11Log() { zzSetupTotal("log", "github.com/tmpim/casket/caskethttp/log", []string{"except", "ipmask", "/", "stdout", "stderr", "syslog", "f.log", "{common}", "255.255.0.0", "ffff::", "rotate_size", "1"}) }

func VerifH11Markdown() { zzSetupTotal("markdown", "github.com/tmpim/casket/caskethttp/markdown", []string{"css", "ext", "js", "template", "templatedir", "/", ".md", "a.css", "t.html", "name"}) }

func VerifH11Mime() { zzSetupTotal("mime", "github.com/tmpim/casket/caskethttp/mime", []string{"ext_defaults", ".txt", "text/plain", "txt"}) }

func VerifH11On() { zzSetupTotal("on", "github.com/tmpim/casket/onevent", []string{"startup", "shutdown", "certrenew", "echo", "hi", "&", "nosuch"}) }

func VerifH11Pprof() { zzSetupTotal("pprof", "github.com/tmpim/casket/caskethttp/pprof", []string{"x"}) }

func VerifH11Proxy() { zzSetupTotal("proxy", "github.com/tmpim/casket/caskethttp/proxy", []string{"ca_certificates", "except", "fail_timeout", "fallback_delay", "header_downstream", "header_upstream", "health_check", "health_check_contains", "health_check_interval", "health_check_port", "health_check_timeout", "insecure_skip_verify", "keepalive", "max_conns", "max_fails", "policy", "timeout", "tls_client", "trans", "transparent", "try_duration", "try_interval", "upstream", "websocket", "without", "/", "localhost:80", "http://a", "unix:/s", "srv://a", "localhost:80-81", "0s", "1s", "-1s", "round_robin", "header", "X-A", "/h"}) }

func VerifH11Push() { zzSetupTotal("push", "github.com/tmpim/casket/caskethttp/push", []string{"content-encoding", "content-length", "expect", "header", "host", "method", "te", "trailer", "/", "/a", "GET", "X-A v"}) }

func VerifH11Redir() { zzSetupTotal("redir", "github.com/tmpim/casket/caskethttp/redirect", []string{"meta", "/", "/a", "301", "https://{host}", "if", "{path}", "is", "x"}) }

func VerifH11RequestId() { zzSetupTotal("request_id", "github.com/tmpim/casket/caskethttp/requestid", []string{"X-Id", "a b"}) }

func VerifH11Rewrite() { zzSetupTotal("rewrite", "github.com/tmpim/casket/caskethttp/rewrite", []string{"ext", "not", "r", "regexp", "to", "/", "/a", "{path}", ".html", "if", "x", "is", "(", "$1"}) }

func VerifH11Root() { zzSetupTotal("root", "github.com/tmpim/casket/caskethttp/root", []string{"/srv", "."}) }

func VerifH11Status() { zzSetupTotal("status", "github.com/tmpim/casket/caskethttp/status", []string{"404", "/a", "abc", "0"}) }

func VerifH11Templates() { zzSetupTotal("templates", "github.com/tmpim/casket/caskethttp/templates", []string{"between", "ext", "path", "/", ".html", "{{", "}}"}) }

func VerifH11Timeouts() { zzSetupTotal("timeouts", "github.com/tmpim/casket/caskethttp/timeouts", []string{"header", "idle", "none", "read", "write", "1s", "0", "-1s", "abc"}) }

func VerifH11Tls() { zzSetupTotal("tls", "github.com/tmpim/casket/caskettls", []string{"CERTIFICATE", "EC PARAMETERS", "EC PRIVATE KEY", "PRIVATE KEY", "alpn", "ask", "ca", "cert_obtained", "ciphers", "clients", "curves", "dns", "http", "https", "key_type", "load", "max_certs", "must_staple", "no_redirect", "off", "protocols", "request", "require", "self_signed", "verify_if_given", "wildcard", "a@b.c", "cert.pem", "key.pem", "tls1.2", "tls1.3", "tls1.0", "p256", "X25519", "http2"}) }

func VerifH11Tryfiles() { zzSetupTotal("tryfiles", "github.com/tmpim/casket/caskethttp/tryfiles", []string{"/", "except", "without", "{path}", "x"}) }

func VerifH11Websocket() { zzSetupTotal("websocket", "github.com/tmpim/casket/caskethttp/websocket", []string{"bufsize", "respawn", "type", "/", "cat", "lines"}) }

// VerifH11ProxyBlock: the proxy directive with a block of two option lines over the options that
// take durations, counts and health-check settings.
func VerifH11ProxyBlock() {
	verifrt.Terminates()
	verifrt.Budget(6000000)
	verifrt.TolerateUnsupported()
	keys := []string{"policy", "fail_timeout", "max_fails", "try_duration", "try_interval", "health_check", "health_check_interval",
		"health_check_timeout", "health_check_port", "timeout", "fallback_delay", "keepalive", "max_conns", "without", "except"}
	vals := []string{"0s", "1s", "-1s", "0", "1", "-1", "x", "/h"}
	tok := func(line int, text string) casketfile.Token {
		return casketfile.Token{File: "Casketfile", Line: line, Text: text}
	}
	upstream := []string{"localhost:80", "srv://svc", "localhost:80-82", "unix:/s"}[verifrt.Choose("upstream", 2+2*verifrt.Tier())]
	toks := []casketfile.Token{tok(1, "proxy"), tok(1, "/"), tok(1, upstream), tok(1, "{")}
	toks = append(toks, tok(2, keys[verifrt.Choose("k1", len(keys))]), tok(2, vals[verifrt.Choose("v1", len(vals))]))
	if verifrt.Bool("second-line") {
		toks = append(toks, tok(3, keys[verifrt.Choose("k2", len(keys))]), tok(3, vals[verifrt.Choose("v2", len(vals))]))
	}
	toks = append(toks, tok(4, "}"))
	// the health check itself is an HTTP request to the backend (outside the engine); its worker
	// loop (ticker, stop channel) is what runs here
	verifrt.Stub("(*github.com/tmpim/casket/caskethttp/proxy.staticUpstream).healthCheck", func(interface{}) {})
	c := casket.NewTestController("http", "")
	c.Dispenser = casketfile.NewDispenserTokens("Casketfile", toks)
	setup, err := casket.DirectiveAction("http", "proxy")
	if err != nil {
		verifrt.Fail("directive-registered")
		return
	}
	err = setup(c)
	verifrt.DrainGoroutines()
	verifrt.Observe("setup", err != nil)
}
