//go:build verif

// verif:package caskethttp/proxy
package proxy

import (
	"strconv"
	"strings"

	"github.com/tmpim/casket/zzverif/verifrt"
)

// VerifK11UpstreamPortRange: an upstream written with a port range (host:lo-hi) is expanded in
// bounded time whatever the two numbers are -- around the ends of the port space and of the
// machine integers included -- into exactly the addresses lo..hi, or refused with an error.
func VerifK11UpstreamPortRange() {
	verifrt.Terminates()
	verifrt.Budget(400000)
	pfx := []string{"", "6553", "3276", "429496729", "922337203685477580"}[verifrt.Choose("magnitude", 5)]
	// the two last digits are enumerated (the expansion formats every port with fmt, which the
	// engine does not model for symbolic integers)
	const digits = "0123456789-a"
	d1 := digits[verifrt.Choose("lo-digit", len(digits))]
	d2 := digits[verifrt.Choose("hi-digit", len(digits))]
	lo := pfx + string([]byte{d1})
	hi := pfx + string([]byte{d2})
	tail := []string{"", "/x"}[verifrt.Choose("tail", 2)]
	scheme := []string{"", "http://"}[verifrt.Choose("scheme", 2)]
	u := scheme + "h:" + lo + "-" + hi + tail
	hosts, err := parseUpstream(u)
	if err != nil {
		verifrt.Observe("refused", true)
		return
	}
	l, e1 := strconv.ParseUint(lo, 10, 64)
	h, e2 := strconv.ParseUint(hi, 10, 64)
	if e1 != nil || e2 != nil || h <= l {
		// not a range of two numbers in ascending order: only acceptable as "taken as written"
		verifrt.Assert(len(hosts) == 1 && hosts[0] == u, "malformed-range-refused-or-taken-as-written")
		return
	}
	verifrt.Assert(uint64(len(hosts)) == h-l+1, "range-expands-to-each-port-once")
	if len(hosts) > 0 {
		verifrt.Assert(hosts[0] == scheme+"h:"+lo+tail && hosts[len(hosts)-1] == scheme+"h:"+hi+tail, "range-ends-as-written")
	}
	for _, x := range hosts {
		verifrt.Assert(strings.HasPrefix(x, scheme+"h:"+pfx), "range-ends-as-written")
	}
	verifrt.Observe("n", len(hosts))
}
