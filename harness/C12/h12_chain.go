//go:build verif

// verif:package caskethttp
package caskethttp

import (
	"bytes"
	stdgzip "compress/gzip"
	"errors"
	"io"
	"net/http"
	"net/url"
	"sync"
	"text/template"

	caskerrors "github.com/tmpim/casket/caskethttp/errors"
	caskgzip "github.com/tmpim/casket/caskethttp/gzip"
	"github.com/tmpim/casket/caskethttp/header"
	"github.com/tmpim/casket/caskethttp/httpserver"
	casklog "github.com/tmpim/casket/caskethttp/log"
	"github.com/tmpim/casket/caskethttp/mime"
	"github.com/tmpim/casket/caskethttp/requestid"
	"github.com/tmpim/casket/caskethttp/status"
	"github.com/tmpim/casket/caskethttp/templates"
	"github.com/tmpim/casket/caskettls"
	"github.com/tmpim/casket/zzverif/verifrt"
)

// zzClient is the client side of the connection; it enforces net/http's rules: the first
// WriteHeader wins, codes below 100 panic, later WriteHeader calls are superfluous.
type zzClient struct {
	hdr         http.Header
	status      int
	body        []byte
	superfluous int
}

func (w *zzClient) Header() http.Header {
	if w.hdr == nil {
		w.hdr = http.Header{}
	}
	return w.hdr
}
func (w *zzClient) WriteHeader(c int) {
	if w.status != 0 {
		w.superfluous++ // net/http logs "superfluous response.WriteHeader call" and ignores it
		return
	}
	if c < 100 || c > 999 {
		panic("invalid WriteHeader code")
	}
	w.status = c
}
func (w *zzClient) Write(p []byte) (int, error) {
	if w.status == 0 {
		w.status = 200
	}
	w.body = append(w.body, p...)
	return len(p), nil
}

// zzBehaviour is one nondeterministic behaviour of the innermost handler, drawn once per request.
type zzBehaviour struct {
	writes    bool
	status    int // 0 = none explicit
	chunks    [][]byte
	panicWhen int // 0 never, 1 before writing, 2 after writing
	ret       int
	err       bool
	abort     bool // the panic value is http.ErrAbortHandler
	copies    bool // body sent with io.Copy from a plain reader (as the file server and ServeContent do): uses the writer's ReadFrom if it has one
}

func zzDraw() zzBehaviour {
	var b zzBehaviour
	b.writes = verifrt.Bool("writes")
	if b.writes {
		if verifrt.Bool("explicit-status") {
			b.status = []int{200, 204, 404, 500}[verifrt.Choose("status", 4)]
		}
		n := verifrt.IntRange("chunks", 0, 2+verifrt.Tier())
		for i := 0; i < n; i++ {
			b.chunks = append(b.chunks, verifrt.Bytes("chunk", verifrt.IntRange("chunklen", 1, 2+verifrt.Tier())))
		}
		if b.status == 0 && n == 0 {
			b.writes = false
		}
	}
	b.panicWhen = verifrt.Choose("panic", 3)
	if b.panicWhen == 1 {
		b.abort = verifrt.Bool("panic-with-abort-sentinel")
	}
	if b.writes && b.panicWhen == 0 {
		b.err = verifrt.Bool("err-after-writing")
	}
	if !b.writes {
		if b.panicWhen == 2 {
			b.panicWhen = 1
		}
		b.ret = []int{0, 200, 404, 500, 503}[verifrt.Choose("ret", 5)]
		b.err = verifrt.Bool("err")
	}
	return b
}

type zzInner struct{ b *zzBehaviour }

func (h zzInner) ServeHTTP(w http.ResponseWriter, r *http.Request) (int, error) {
	b := h.b
	if b.panicWhen == 1 {
		if b.abort {
			panic(http.ErrAbortHandler) // net/http's "abort this handler" sentinel is a panic like any other here
		}
		panic("inner handler panic before writing")
	}
	if b.writes {
		w.Header().Set("X-Inner", "1")
		if b.status != 0 {
			w.WriteHeader(b.status)
		}
		for _, c := range b.chunks {
			if b.copies {
				io.Copy(w, struct{ io.Reader }{bytes.NewReader(c)})
			} else {
				w.Write(c)
			}
		}
		if b.panicWhen == 2 {
			panic("inner handler panic after writing")
		}
		if b.err {
			// a handler that has written its response reports an error for the log only
			return 0, errors.New("inner error after writing")
		}
		return 0, nil
	}
	if b.err {
		return b.ret, errors.New("inner error")
	}
	return b.ret, nil
}

// zzTplText: under the engine text/template (reflection) is replaced by an identity renderer -- the
// bodies drawn here contain no template actions, so natively the real package renders them unchanged.
var zzTplText string

func zzStubTemplates() {
	verifrt.Stub("(*text/template.Template).Funcs", func(t *template.Template, _ template.FuncMap) *template.Template { return t })
	verifrt.Stub("(*text/template.Template).Parse", func(t *template.Template, text string) (*template.Template, error) {
		zzTplText = text
		return t, nil
	})
	verifrt.Stub("(*text/template.Template).Execute", func(t *template.Template, w io.Writer, _ interface{}) error {
		_, err := w.Write([]byte(zzTplText))
		return err
	})
}

// zzGunzip12 undoes the gzip coding (engine: the tagging identity model 1f 8b '(' payload ')').
func zzGunzip12(body []byte) ([]byte, bool) {
	if verifrt.Symbolic() {
		if len(body) >= 4 && body[0] == 0x1f && body[1] == 0x8b && body[2] == '(' && body[len(body)-1] == ')' {
			return body[3 : len(body)-1], true
		}
		return nil, false
	}
	zr, err := stdgzip.NewReader(bytes.NewReader(body))
	if err != nil {
		return nil, false
	}
	out, err := io.ReadAll(zr)
	return out, err == nil
}

type zzWrappers struct {
	log, header, errors, debug, gzip, templates bool
	extras                                      bool // request_id, status (a rule for another path) and mime (sets the type for .html)
}

func zzServer(b *zzBehaviour, useLog, useHeader, useErrors, debug bool) *httpserver.Server {
	return zzServerWith(b, zzWrappers{log: useLog, header: useHeader, errors: useErrors, debug: debug})
}

func zzServerWith(b *zzBehaviour, wr zzWrappers) *httpserver.Server {
	useLog, useHeader, useErrors, debug := wr.log, wr.header, wr.errors, wr.debug
	site := &httpserver.SiteConfig{Addr: httpserver.Address{Original: "", Host: ""}, TLS: &caskettls.Config{}}
	var sink bytes.Buffer
	if useLog {
		site.AddMiddleware(func(next httpserver.Handler) httpserver.Handler {
			return casklog.Logger{Next: next, Rules: []*casklog.Rule{{PathScope: "/", Entries: []*casklog.Entry{{Format: "{status} {size}", Log: httpserver.NewTestLogger(&sink)}}}}}
		})
	}
	if wr.gzip {
		site.AddMiddleware(func(next httpserver.Handler) httpserver.Handler {
			return caskgzip.Gzip{Next: next, Configs: []caskgzip.Config{{RequestFilters: []caskgzip.RequestFilter{caskgzip.DefaultExtFilter()},
				ResponseFilters: []caskgzip.ResponseFilter{caskgzip.SkipCompressedFilter{}}}}}
		})
	}
	if useHeader {
		site.AddMiddleware(func(next httpserver.Handler) httpserver.Handler {
			return header.Headers{Next: next, Rules: []header.Rule{{Path: "/", Headers: http.Header{"X-Site": []string{"v"}}}}}
		})
	}
	if useErrors {
		site.AddMiddleware(func(next httpserver.Handler) httpserver.Handler {
			return caskerrors.ErrorHandler{Next: next, Log: httpserver.NewTestLogger(&sink), Debug: debug}
		})
	}
	if wr.extras {
		site.AddMiddleware(func(next httpserver.Handler) httpserver.Handler { return requestid.Handler{Next: next} })
		site.AddMiddleware(func(next httpserver.Handler) httpserver.Handler {
			return status.Status{Next: next, Rules: []httpserver.HandlerConfig{status.NewRule("/gone", 410)}}
		})
		site.AddMiddleware(func(next httpserver.Handler) httpserver.Handler {
			return mime.Mime{Next: next, Configs: mime.Config{Extensions: map[string]string{".html": "text/html"}}}
		})
	}
	if wr.templates {
		site.AddMiddleware(func(next httpserver.Handler) httpserver.Handler {
			return templates.Templates{Next: next, Rules: []templates.Rule{{Path: "/", Extensions: []string{".html"}}},
				FileSys: http.Dir("."), BufPool: &sync.Pool{New: func() interface{} { return new(bytes.Buffer) }}}
		})
	}
	site.AddMiddleware(func(next httpserver.Handler) httpserver.Handler { return zzInner{b} })
	s, err := httpserver.NewServer(":80", []*httpserver.SiteConfig{site})
	if err != nil {
		verifrt.Fail("new-server")
	}
	return s
}

// VerifH12OneResponse: whatever subset of wrapping directives is used and however the innermost
// handler behaves, the client gets exactly one well-formed response, and panics are contained.
func VerifH12OneResponse() {
	b := zzDraw()
	useLog, useHeader, useErrors := verifrt.Bool("log"), verifrt.Bool("header"), verifrt.Bool("errors")
	debug := useErrors && verifrt.Bool("debug")
	s := zzServer(&b, useLog, useHeader, useErrors, debug)
	w := &zzClient{}
	r := &http.Request{Method: "GET", Host: "h", URL: &url.URL{Path: "/x"}, Header: http.Header{}, RemoteAddr: "1.2.3.4:5", ProtoMajor: 1, Proto: "HTTP/1.1"}
	s.ServeHTTP(w, r) // a panic escaping here is a violation by itself

	if !(b.panicWhen == 2) {
		verifrt.Assert(w.superfluous == 0, "header-committed-once")
	}
	var innerBody []byte
	for _, c := range b.chunks {
		innerBody = append(innerBody, c...)
	}
	switch {
	case b.panicWhen == 1:
		verifrt.Assert(w.status == 500, "panic-before-writing-gives-500")
	case b.writes && b.panicWhen == 0:
		want := b.status
		if want == 0 {
			want = 200
		}
		verifrt.Assert(w.status == want, "written-status-unaltered")
		verifrt.Assert(bytes.Equal(w.body, innerBody), "written-body-unaltered")
		verifrt.Assert(w.Header().Get("X-Inner") == "1", "inner-headers-kept")
	case !b.writes && b.ret >= 400:
		verifrt.Assert(w.status == b.ret, "error-status-delivered")
		verifrt.Assert(len(w.body) > 0, "error-body-present")
	}
	if useHeader && w.status != 0 && b.panicWhen == 0 {
		verifrt.Assert(w.Header().Get("X-Site") == "v", "configured-header-applied")
	}
	// the server keeps serving: a second, well-behaved request through the same chain
	b2 := zzBehaviour{writes: true, status: 200, chunks: [][]byte{[]byte("ok")}}
	b = b2
	w2 := &zzClient{}
	r2 := &http.Request{Method: "GET", Host: "h", URL: &url.URL{Path: "/y"}, Header: http.Header{}, RemoteAddr: "1.2.3.4:5", ProtoMajor: 1, Proto: "HTTP/1.1"}
	s.ServeHTTP(w2, r2)
	verifrt.Assert(w2.status == 200 && string(w2.body) == "ok", "next-request-served")
	verifrt.Observe("resp", w.status, len(w.body) > 0)
}

// VerifH12Wrapped: the same statement with the response-rewriting wrappers in the chain: gzip (the
// client offering gzip or not) and templates (the response is buffered, rendered and re-sent), in
// any combination with errors and header. Body bytes contain no template action.
func VerifH12Wrapped() {
	b := zzDraw()
	for _, c := range b.chunks {
		for _, x := range c {
			verifrt.Assume(x != '{')
		}
	}
	if len(b.chunks) > 0 {
		b.copies = verifrt.Bool("body-sent-with-io-copy")
	}
	wr := zzWrappers{header: verifrt.Bool("header"), errors: verifrt.Bool("errors"), gzip: verifrt.Bool("gzip"), templates: verifrt.Bool("templates"),
		extras: verifrt.Bool("request_id-status-mime")}
	verifrt.Assume(wr.gzip || wr.templates || wr.extras)
	wr.debug = wr.errors && verifrt.Bool("debug")
	if wr.templates {
		zzStubTemplates()
	}
	s := zzServerWith(&b, wr)
	w := &zzClient{}
	r := &http.Request{Method: "GET", Host: "h", URL: &url.URL{Path: "/x.html"}, Header: http.Header{}, RemoteAddr: "1.2.3.4:5", ProtoMajor: 1, Proto: "HTTP/1.1"}
	offered := wr.gzip && verifrt.Bool("accept-gzip")
	if offered {
		r.Header.Set("Accept-Encoding", "gzip")
	}
	s.ServeHTTP(w, r)

	if !(b.panicWhen == 2) {
		verifrt.Assert(w.superfluous == 0, "header-committed-once")
	}
	var innerBody []byte
	for _, c := range b.chunks {
		innerBody = append(innerBody, c...)
	}
	body := w.body
	if w.Header().Get("Content-Encoding") == "gzip" {
		verifrt.Assert(offered, "gzip-only-when-offered")
		if b.panicWhen == 0 {
			// (a handler that panics after it has started writing leaves a truncated stream)
			dec, ok := zzGunzip12(w.body)
			verifrt.Assert(ok || len(w.body) == 0, "gzip-labelled-body-is-gzip")
			body = dec
		}
	}
	switch {
	case b.panicWhen == 1:
		verifrt.Assert(w.status == 500, "panic-before-writing-gives-500")
	case b.writes && b.panicWhen == 0:
		want := b.status
		if want == 0 {
			want = 200
		}
		verifrt.Assert(w.status == want, "written-status-unaltered")
		if want != 204 {
			verifrt.Assert(bytes.Equal(body, innerBody), "written-body-unaltered")
		}
		verifrt.Assert(w.Header().Get("X-Inner") == "1", "inner-headers-kept")
	case !b.writes && b.ret >= 400:
		verifrt.Assert(w.status == b.ret, "error-status-delivered")
		verifrt.Assert(len(body) > 0, "error-body-present")
	}
	verifrt.Observe("wrapped", w.status, len(body) > 0) // (error bodies carry a stack trace in visible mode)
}
