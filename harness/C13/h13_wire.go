//go:build verif

// verif:package caskethttp/fastcgi
package fastcgi

import (
	"io"

	"github.com/tmpim/casket/zzverif/verifrt"
)

// VerifK13HeaderInit: record header arithmetic for every content length a record can carry.
func VerifK13HeaderInit() {
	var h header
	cl := verifrt.Int("contentLength")
	verifrt.Assume(cl >= 0 && cl <= 65535)
	typ := verifrt.Byte("type")
	id := verifrt.Uint16("id")
	h.init(typ, id, cl)
	verifrt.Assert(h.Version == 1 && h.Type == typ && h.ID == id, "header-fields")
	verifrt.Assert(int(h.ContentLength) == cl, "content-length-exact")
	verifrt.Assert(h.PaddingLength < 8, "padding-below-8")
	verifrt.Assert((cl+int(h.PaddingLength))%8 == 0, "record-8-aligned")
	verifrt.Assert(h.Reserved == 0, "reserved-zero")
	verifrt.Observe("pad", h.PaddingLength)
}

// zzDecodeSize is the FastCGI specification's name-value length decoding.
func zzDecodeSize(b []byte) (size uint32, n int) {
	if b[0]>>7 == 0 {
		return uint32(b[0]), 1
	}
	return uint32(b[0]&0x7f)<<24 | uint32(b[1])<<16 | uint32(b[2])<<8 | uint32(b[3]), 4
}

// VerifK13EncodeSize: encodeSize round-trips through the specification decoder for every size < 2^31.
func VerifK13EncodeSize() {
	size := verifrt.Uint32("size")
	verifrt.Assume(size < 1<<31)
	b := make([]byte, 8)
	n := encodeSize(b, size)
	verifrt.Assert(n == 1 || n == 4, "length-1-or-4")
	verifrt.Assert((n == 1) == (size <= 127), "short-form-iff-le-127")
	got, m := zzDecodeSize(b)
	verifrt.Assert(m == n, "decoder-consumes-same")
	verifrt.Assert(got == size, "size-roundtrip")
	verifrt.Observe("n", n)
}

// zzConn records everything written and serves scripted reads.
type zzConn struct {
	written [][]byte
	in      []byte
	chunk   []int // read chunk sizes (cyclic); 0 entries mean "as much as asked"
	ci      int
	closed  bool
}

func (c *zzConn) Write(p []byte) (int, error) {
	c.written = append(c.written, append([]byte{}, p...))
	return len(p), nil
}

func (c *zzConn) Read(p []byte) (int, error) {
	if len(c.in) == 0 {
		return 0, io.EOF
	}
	n := len(p)
	if len(c.chunk) > 0 {
		k := c.chunk[c.ci%len(c.chunk)]
		c.ci++
		if k > 0 && k < n {
			n = k
		}
	}
	if n > len(c.in) {
		n = len(c.in)
	}
	copy(p, c.in[:n])
	c.in = c.in[n:]
	return n, nil
}

func (c *zzConn) Close() error { c.closed = true; return nil }

// VerifH13aWriteRecord: one record on the wire is header ‖ content ‖ zero padding, 8-aligned.
func VerifH13aWriteRecord() {
	max := 9
	if verifrt.Tier() > 0 {
		max = 17
	}
	n := verifrt.IntRange("len", 0, max)
	content := verifrt.Bytes("content", n)
	typ := verifrt.Byte("type")
	conn := &zzConn{}
	c := &FCGIClient{rwc: conn, reqID: verifrt.Uint16("reqid")}
	err := c.writeRecord(typ, content)
	verifrt.Assert(err == nil, "no-error")
	verifrt.Assert(len(conn.written) == 1, "single-write")
	w := conn.written[0]
	verifrt.Assert(len(w) >= 8 && len(w)%8 == 0, "aligned")
	verifrt.Assert(w[0] == 1 && w[1] == typ, "version-type")
	verifrt.Assert(uint16(w[2])<<8|uint16(w[3]) == c.reqID, "request-id")
	cl := int(w[4])<<8 | int(w[5])
	pad := int(w[6])
	verifrt.Assert(cl == n, "content-length")
	verifrt.Assert(len(w) == 8+cl+pad, "total-length")
	for i := 0; i < n; i++ {
		verifrt.Assert(w[8+i] == content[i], "content-bytes")
	}
	for i := 8 + cl; i < len(w); i++ {
		verifrt.Assert(w[i] == 0, "padding-zero")
	}
	verifrt.Observe("total", len(w))
}

// VerifH13dStreamReader: for every framing of responder output into stdout / stderr records the
// client sees exactly the stdout payloads and stderr goes only to the error buffer.
func VerifH13dStreamReader() {
	nrec := verifrt.IntRange("nrec", 1, 2+verifrt.Tier())
	var wire, wantOut, wantErr []byte
	for r := 0; r < nrec; r++ {
		kind := verifrt.Choose("rectype", 3) // 0 stdout, 1 stderr, 2 other stream type (treated as stdout data by the client)
		typ := Stdout
		switch kind {
		case 1:
			typ = Stderr
		case 2:
			typ = 9
		}
		cl := verifrt.IntRange("cl", 0, 2)
		pad := verifrt.IntRange("pad", 0, 1)
		payload := verifrt.Bytes("payload", cl)
		wire = append(wire, 1, typ, 0, 1, 0, byte(cl), byte(pad), 0)
		wire = append(wire, payload...)
		for i := 0; i < pad; i++ {
			wire = append(wire, verifrt.Byte("padbyte"))
		}
		if typ == Stderr {
			wantErr = append(wantErr, payload...)
		} else {
			wantOut = append(wantOut, payload...)
		}
	}
	// end request record
	wire = append(wire, 1, EndRequest, 0, 1, 0, 8, 0, 0, 0, 0, 0, 0, 0, 0, 0, 0)
	conn := &zzConn{in: wire, chunk: []int{verifrt.IntRange("chunk1", 0, 3), verifrt.IntRange("chunk2", 0, 3)}}
	c := &FCGIClient{rwc: conn, reqID: 1}
	sr := &streamReader{c: c}
	bufLen := verifrt.IntRange("buflen", 1, 3)
	var got []byte
	for iter := 0; iter < 40; iter++ {
		p := make([]byte, bufLen)
		n, err := sr.Read(p)
		got = append(got, p[:n]...)
		if err != nil {
			verifrt.Assert(err == io.EOF, "ends-with-eof")
			break
		}
	}
	verifrt.Assert(len(got) == len(wantOut), "stdout-length")
	for i := range wantOut {
		if i < len(got) {
			verifrt.Assert(got[i] == wantOut[i], "stdout-bytes")
		}
	}
	se := c.stderr.Bytes()
	verifrt.Assert(len(se) == len(wantErr), "stderr-length")
	for i := range wantErr {
		if i < len(se) {
			verifrt.Assert(se[i] == wantErr[i], "stderr-bytes")
		}
	}
	verifrt.Observe("lens", len(got), len(se))
}

// zzZeros serves n zero bytes after a fixed prefix.
type zzZeros struct {
	prefix []byte
	n      int
	served int
}

func (z *zzZeros) Read(p []byte) (int, error) {
	k := 0
	for k < len(p) && len(z.prefix) > 0 {
		p[k] = z.prefix[0]
		z.prefix = z.prefix[1:]
		k++
	}
	for k < len(p) && z.n > 0 {
		p[k] = 0
		z.n--
		k++
	}
	z.served += k
	if k == 0 {
		return 0, io.EOF
	}
	return k, nil
}

// VerifH13eRecordBoundaries: record.read takes exactly the announced content and padding for
// lengths around the 16-bit boundaries, also when the record buffer is reused.
func VerifH13eRecordBoundaries() {
	lens := [][2]int{{0, 0}, {1, 7}, {65535, 0}, {65535, 1}, {65535, 255}, {65281, 255}, {65280, 255}, {32768, 128}}
	first := lens[verifrt.Choose("first", len(lens))]
	second := lens[verifrt.Choose("second", len(lens))]
	typ := verifrt.Byte("type")
	verifrt.Assume(typ != EndRequest)
	rec := &record{}
	for _, l := range [][2]int{first, second} {
		cl, pad := l[0], l[1]
		src := &zzZeros{prefix: []byte{1, typ, 0, 1, byte(cl >> 8), byte(cl), byte(pad), 0}, n: cl + pad}
		buf, err := rec.read(src)
		verifrt.Assert(err == nil, "record-read-ok")
		verifrt.Assert(len(buf) == cl, "content-length-exact")
		verifrt.Assert(src.served == 8+cl+pad, "consumes-content-and-padding")
	}
}
