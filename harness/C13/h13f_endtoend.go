//go:build verif

// verif:package caskethttp/fastcgi
package fastcgi

import (
	"bytes"
	"context"
	"io"
	"net"
	"net/http"
	"net/url"
	"strconv"
	"strings"

	"github.com/tmpim/casket/caskethttp/httpserver"
	"github.com/tmpim/casket/caskethttp/staticfiles"
	"github.com/tmpim/casket/zzverif/verifrt"
)

// ---- a reference FastCGI responder (FastCGI 1.0 §3, §5) written independently of the client ----

type zzRequest struct {
	began  bool
	role   int
	env    map[string]string
	dup    bool // a parameter name arrived twice
	stdin  []byte
	bad    string
	params []byte
}

func zzNVLen(b []byte) (n int, used int, ok bool) {
	if len(b) < 1 {
		return 0, 0, false
	}
	if b[0]>>7 == 0 {
		return int(b[0]), 1, true
	}
	if len(b) < 4 {
		return 0, 0, false
	}
	return int(b[0]&0x7f)<<24 | int(b[1])<<16 | int(b[2])<<8 | int(b[3]), 4, true
}

// zzReadRequest consumes records until the empty stdin record that ends the request.
func zzReadRequest(r io.Reader) *zzRequest {
	q := &zzRequest{env: map[string]string{}}
	paramsDone := false
	for {
		var h [8]byte
		if _, err := io.ReadFull(r, h[:]); err != nil {
			q.bad = "truncated-record-header"
			return q
		}
		if h[0] != 1 {
			q.bad = "bad-version"
			return q
		}
		cl := int(h[4])<<8 | int(h[5])
		content := make([]byte, cl+int(h[6]))
		if _, err := io.ReadFull(r, content); err != nil {
			q.bad = "truncated-record-body"
			return q
		}
		content = content[:cl]
		switch h[1] {
		case 1: // FCGI_BEGIN_REQUEST
			if cl != 8 {
				q.bad = "begin-request-length"
				return q
			}
			q.began = true
			q.role = int(content[0])<<8 | int(content[1])
		case 4: // FCGI_PARAMS
			if cl == 0 {
				paramsDone = true
			} else {
				q.params = append(q.params, content...)
			}
		case 5: // FCGI_STDIN
			if !paramsDone {
				q.bad = "stdin-before-end-of-params"
				return q
			}
			if cl == 0 {
				// decode the name-value pairs
				b := q.params
				for len(b) > 0 {
					nl, u1, ok1 := zzNVLen(b)
					if !ok1 {
						q.bad = "pair-length"
						return q
					}
					vl, u2, ok2 := zzNVLen(b[u1:])
					if !ok2 || len(b) < u1+u2+nl+vl {
						q.bad = "pair-length"
						return q
					}
					name := string(b[u1+u2 : u1+u2+nl])
					if _, seen := q.env[name]; seen {
						q.dup = true
					}
					q.env[name] = string(b[u1+u2+nl : u1+u2+nl+vl])
					b = b[u1+u2+nl+vl:]
				}
				return q
			}
			q.stdin = append(q.stdin, content...)
		default:
			q.bad = "unexpected-record-type"
			return q
		}
	}
}

func zzRecord(typ byte, content []byte, pad int) []byte {
	out := []byte{1, typ, 0, 1, byte(len(content) >> 8), byte(len(content)), byte(pad), 0}
	out = append(out, content...)
	return append(out, make([]byte, pad)...)
}

// zzReplyScript: how the responder frames its output.
type zzReplyScript struct {
	text   []byte // CGI response: header lines, blank line, body
	cut    int    // stdout is sent as text[:cut] and text[cut:] (cut == len: one record)
	stderr int    // 0 none, 1 between the stdout records, 2 before them
	pad    int
}

func (s *zzReplyScript) bytes() []byte {
	var out []byte
	errRec := zzRecord(7, []byte("oops\n"), s.pad)
	if s.stderr == 2 {
		out = append(out, errRec...)
	}
	out = append(out, zzRecord(6, s.text[:s.cut], s.pad)...)
	if s.stderr == 1 {
		out = append(out, errRec...)
	}
	if s.cut < len(s.text) {
		out = append(out, zzRecord(6, s.text[s.cut:], s.pad)...)
	}
	out = append(out, zzRecord(6, nil, 0)...)
	out = append(out, zzRecord(3, make([]byte, 8), 0)...)
	return out
}

// zzE2EConn is the in-memory connection used under the engine: the client writes its whole request,
// then reads; the first read lets the reference responder consume the request and produce its reply.
type zzE2EConn struct {
	w      bytes.Buffer
	script *zzReplyScript
	req    *zzRequest
	out    []byte
	closed bool
}

func (c *zzE2EConn) Write(p []byte) (int, error) { return c.w.Write(p) }
func (c *zzE2EConn) Read(p []byte) (int, error) {
	if c.req == nil {
		c.req = zzReadRequest(bytes.NewReader(c.w.Bytes()))
		c.out = c.script.bytes()
	}
	if len(c.out) == 0 {
		return 0, io.EOF
	}
	n := copy(p, c.out)
	c.out = c.out[n:]
	return n, nil
}
func (c *zzE2EConn) Close() error { c.closed = true; return nil }

type zzAddr string

func (a zzAddr) Address() (string, error) { return string(a), nil }

type zzW13 struct {
	hdr    http.Header
	status int
	body   []byte
}

func (w *zzW13) Header() http.Header {
	if w.hdr == nil {
		w.hdr = http.Header{}
	}
	return w.hdr
}
func (w *zzW13) WriteHeader(c int) {
	if w.status == 0 {
		w.status = c
	}
}
func (w *zzW13) Write(p []byte) (int, error) {
	if w.status == 0 {
		w.status = 200
	}
	w.body = append(w.body, p...)
	return len(p), nil
}

// zzUnknownLen hides the body's length, as a chunked or HTTP/2 upload does.
type zzUnknownLen struct{ r io.Reader }

func (u zzUnknownLen) Read(p []byte) (int, error) { return u.r.Read(p) }
func (u zzUnknownLen) Close() error               { return nil }

// VerifH13fEndToEnd: Handler.ServeHTTP against a reference responder: the responder receives the
// CGI variables derived from the request and exactly the body bytes; the client receives exactly the
// responder's status, headers (repeated fields included) and body for every framing, stderr goes to
// the log only; a request for a script (extension in any letter case) never yields the script text.
func VerifH13fEndToEndRequest()  { zzEndToEnd(true) }
func VerifH13fEndToEndResponse() { zzEndToEnd(false) }

// zzEndToEnd varies either the request side (path, method, query, body, header value; one reply
// framing) or the response side (status line, framing, stderr, padding, body; one request).
func zzEndToEnd(varyRequest bool) {
	base := verifrt.FSRoot()
	root := base + "/site"
	verifrt.FSPut(root+"/a.php", []byte("S"))  // script source: must never reach the client
	verifrt.FSPut(root+"/b.PHP", []byte("S"))  // same, extension in upper case
	verifrt.FSPut(root+"/d/index.php", []byte("S"))
	verifrt.FSPut(root+"/t.txt", []byte("T"))  // static file

	sensitive := verifrt.Bool("case-sensitive-paths")
	httpserver.CaseSensitivePath = sensitive

	paths := []string{"/a.php", "/a.php/pi", "/b.PHP", "/d/", "/t.txt", "/new.php", "/b.PHP/x.php"}
	pk, method, query, hv := 0, "GET", "q=1&r", "v"
	var body []byte
	lengthKnown := true
	script := &zzReplyScript{}
	statusKind, cutKind, rlen := 1, 2, 1
	if varyRequest {
		pk = verifrt.Choose("path", len(paths))
		method = []string{"GET", "POST", "HEAD"}[verifrt.Choose("method", 3)]
		query = []string{"", "q=1&r"}[verifrt.Choose("query", 2)]
		if method == "POST" {
			body = verifrt.Bytes("body", verifrt.IntRange("bodylen", 0, 3+2*verifrt.Tier()))
			lengthKnown = verifrt.Bool("length-known")
		}
		hv = verifrt.String("hv", 1)
		verifrt.Assume(hv[0] >= 0x21 && hv[0] < 0x7f)
	} else {
		pk = []int{0, 2}[verifrt.Choose("path", 2)]
		script.pad = []int{0, 3}[verifrt.Choose("pad", 2)]
		script.stderr = verifrt.Choose("stderr", 3)
		statusKind = verifrt.Choose("status", 3)
		cutKind = verifrt.Choose("cut", 4)
		rlen = verifrt.IntRange("rbodylen", 0, 2+2*verifrt.Tier())
	}
	p := paths[pk]
	text := ""
	wantStatus := 200
	switch statusKind {
	case 1:
		text += "Status: 201 Created\r\n"
		wantStatus = 201
	case 2:
		text += "Status: 404 Not Found\r\n"
		wantStatus = 404
	}
	text += "Content-Type: text/plain\r\nSet-Cookie: a=1\r\nSet-Cookie: b=2\r\n\r\n"
	hdrLen := len(text)
	rbody := verifrt.Bytes("rbody", rlen)
	script.text = append([]byte(text), rbody...)
	switch cutKind {
	case 0:
		script.cut = len(script.text)
	case 1:
		script.cut = 9 // inside the first header line
	case 2:
		script.cut = hdrLen // between header block and body
	default:
		script.cut = len(script.text) - len(rbody)/2 // inside the body (or at its end)
	}

	conn := &zzE2EConn{script: script}
	var nativeReq *zzRequest
	addr := "127.0.0.1:9000"
	if verifrt.Symbolic() {
		verifrt.Stub("github.com/tmpim/casket/caskethttp/fastcgi.DialContext", func(ctx context.Context, network, address string) (*FCGIClient, error) {
			return &FCGIClient{rwc: conn, keepAlive: false, reqID: 1}, nil
		})
	} else {
		// natively the same responder listens on a real socket
		ln, err := net.Listen("tcp", "127.0.0.1:0")
		if err != nil {
			verifrt.Fail("listen")
			return
		}
		defer ln.Close()
		addr = ln.Addr().String()
		done := make(chan struct{})
		defer func() { <-done }()
		go func() {
			defer close(done)
			c, err := ln.Accept()
			if err != nil {
				return
			}
			nativeReq = zzReadRequest(c)
			c.Write(script.bytes())
			c.Close()
		}()
		defer ln.Close()
	}

	next := staticfiles.FileServer{Root: http.Dir(root)}
	rule := Rule{Path: "/", balancer: zzAddr(addr), Ext: ".php", Root: root, SplitPath: ".php", IndexFiles: []string{"index.php"},
		EnvVars: [][2]string{{"K", "V"}}}
	h := Handler{Next: next, Rules: []Rule{rule}, Root: root, FileSys: http.Dir(root), SoftwareName: "casket", SoftwareVersion: "v", ServerName: "h", ServerPort: "80"}

	u := &url.URL{Path: p, RawQuery: query}
	r := &http.Request{Method: method, URL: u, Header: http.Header{"X-K": []string{hv}}, Host: "h", RemoteAddr: "1.2.3.4:55", Proto: "HTTP/1.1", ProtoMajor: 1, ProtoMinor: 1,
		ContentLength: 0, Body: http.NoBody}
	if method == "POST" {
		r.Header.Set("Content-Type", "application/x-test")
		if lengthKnown {
			r.ContentLength = int64(len(body))
			r.Header.Set("Content-Length", strconv.Itoa(len(body)))
			r.Body = io.NopCloser(bytes.NewReader(body))
		} else {
			r.ContentLength = -1
			r.TransferEncoding = []string{"chunked"}
			r.Body = zzUnknownLen{bytes.NewReader(body)}
		}
	}
	r = r.WithContext(context.WithValue(r.Context(), httpserver.OriginalURLCtxKey, *u))
	w := &zzW13{}
	status, herr := h.ServeHTTP(w, r)

	// the script text never reaches the client, whatever the spelling of the extension
	verifrt.Assert(!bytes.Contains(w.body, []byte("S")) || bytes.Contains(rbody, []byte("S")), "script-source-never-served")

	req := conn.req
	if !verifrt.Symbolic() {
		req = nativeReq
	}
	toResponder := pk != 4
	if !toResponder {
		verifrt.Assert(req == nil && (string(w.body) == "T" || method != "GET"), "static-file-left-to-the-next-handler")
		verifrt.Observe("e2e", status, w.status, false)
		return
	}
	verifrt.Assert(req != nil, "script-request-reaches-the-responder")
	if req == nil {
		return
	}
	verifrt.Assert(req.bad == "" && req.began && req.role == 1 && !req.dup, "well-formed-request-records")
	env := req.env
	verifrt.Assert(env["REQUEST_METHOD"] == method, "env-request-method")
	verifrt.Assert(env["QUERY_STRING"] == query, "env-query-string")
	wantScript, wantInfo := p, ""
	switch pk {
	case 1:
		wantScript, wantInfo = "/a.php", "/pi"
	case 3:
		wantScript = "/d/index.php"
	case 6:
		wantScript, wantInfo = "/b.PHP", "/x.php" // split at the FIRST occurrence, whatever its letter case
	}
	verifrt.Assert(env["SCRIPT_NAME"] == wantScript && env["PATH_INFO"] == wantInfo && env["DOCUMENT_URI"] == wantScript, "env-script-name-and-path-info-split")
	verifrt.Assert(env["SCRIPT_FILENAME"] == root+wantScript && env["DOCUMENT_ROOT"] == root, "env-script-filename")
	verifrt.Assert(env["HTTP_X_K"] == hv, "env-every-header-as-http-var")
	verifrt.Assert(env["K"] == "V", "env-configured-entry")
	verifrt.Assert(env["REMOTE_ADDR"] == "1.2.3.4" && env["REMOTE_PORT"] == "55" && env["HTTP_HOST"] == "h" && env["SERVER_PROTOCOL"] == "HTTP/1.1" &&
		env["GATEWAY_INTERFACE"] == "CGI/1.1" && env["REQUEST_URI"] == u.RequestURI(), "env-standard-variables")
	if method == "POST" {
		verifrt.Assert(env["CONTENT_TYPE"] == "application/x-test", "env-content-type")
		if lengthKnown {
			verifrt.Assert(env["CONTENT_LENGTH"] == strconv.Itoa(len(body)), "env-content-length")
		}
		verifrt.Assert(bytes.Equal(req.stdin, body), "responder-receives-exactly-the-body")
	} else {
		verifrt.Assert(len(req.stdin) == 0, "no-body-no-stdin")
	}

	// what the client received
	verifrt.Assert(status == 0 && w.status == wantStatus, "client-receives-responder-status")
	verifrt.Assert(w.Header().Get("Content-Type") == "text/plain", "client-receives-responder-headers")
	ck := w.Header()["Set-Cookie"]
	verifrt.Assert(len(ck) == 2 && ck[0] == "a=1" && ck[1] == "b=2", "repeated-header-fields-all-delivered")
	verifrt.Assert(bytes.Equal(w.body, rbody), "client-receives-exactly-the-responder-body")
	if script.stderr != 0 {
		le, isLog := herr.(LogError)
		verifrt.Assert(isLog && strings.Contains(string(le), "oops"), "stderr-goes-to-the-log")
	} else {
		verifrt.Assert(herr == nil, "no-stderr-no-error")
	}
	verifrt.Observe("e2e", status, w.status, true)
}

// VerifK13WritePairs: a name-value pair around the 127/128 length-encoding boundary and around the
// 65 500-byte record limit: whatever the lengths, sending it does not panic; a pair that fits a
// single record reaches the responder exactly; the records written are well-formed.
func VerifK13WritePairs() {
	lens := []int{0, 1, 127, 128, 300, 65363, 65364, 65365, 65491, 65492, 65493, 65600}
	kl := lens[1+verifrt.Choose("keylen", len(lens)-1)]
	vl := lens[verifrt.Choose("vallen", len(lens))]
	k := strings.Repeat("K", kl)
	v := strings.Repeat("v", vl)
	conn := &zzE2EConn{script: &zzReplyScript{}}
	c := &FCGIClient{rwc: conn, reqID: 1}
	err := c.writePairs(Params, map[string]string{k: v})
	verifrt.Assert(err == nil, "pairs-written")
	// reference decoding of what is on the wire: Params records, closed by an empty one
	raw := conn.w.Bytes()
	var params []byte
	closed, wellFormed := false, true
	for len(raw) > 0 {
		if len(raw) < 8 || raw[0] != 1 || raw[1] != Params {
			wellFormed = false
			break
		}
		cl := int(raw[4])<<8 | int(raw[5])
		total := 8 + cl + int(raw[6])
		if len(raw) < total || closed {
			wellFormed = false
			break
		}
		if cl == 0 {
			closed = true
		}
		params = append(params, raw[8:8+cl]...)
		raw = raw[total:]
	}
	verifrt.Assert(wellFormed && closed, "well-formed-params-stream")
	if 8+kl+vl <= 65500 {
		nl, u1, ok1 := zzNVLen(params)
		ok := ok1
		var vlen, u2 int
		if ok {
			var ok2 bool
			vlen, u2, ok2 = zzNVLen(params[u1:])
			ok = ok2
		}
		ok = ok && nl == kl && vlen == vl && len(params) == u1+u2+kl+vl
		verifrt.Assert(ok, "pair-that-fits-one-record-arrives-exactly")
		if ok {
			verifrt.Assert(string(params[u1+u2:u1+u2+kl]) == k && string(params[u1+u2+kl:]) == v, "pair-bytes-exact")
		}
	}
	verifrt.Observe("pairs", len(params))
}
