//go:build verif

// verif:package caskethttp/proxy
package proxy

import (
	"errors"
	"net/http"
	"net/url"
	"sync"
	"sync/atomic"
	"time"

	"github.com/tmpim/casket/zzverif/verifrt"
)

type zzW14 struct {
	hdr    http.Header
	status int
}

func (w *zzW14) Header() http.Header {
	if w.hdr == nil {
		w.hdr = http.Header{}
	}
	return w.hdr
}
func (w *zzW14) WriteHeader(c int)            { w.status = c }
func (w *zzW14) Write(p []byte) (int, error) { return len(p), nil }

// zzCountingBackend observes the host's in-flight counter from inside the forwarding window.
type zzCountingBackend struct {
	mu          sync.Mutex
	host        *UpstreamHost
	inside      int
	maxInside   int
	mismatch    bool
	outcomes    []int // per call: 0 ok, 1 error, 2 panic
	calls       int
	release     chan struct{}
	holdUntilN  int
	gate        *zzGate
}

func (b *zzCountingBackend) RoundTrip(req *http.Request) (*http.Response, error) {
	if b.gate != nil {
		b.gate.mu.Lock()
		b.gate.pending-- // this request has been counted and is now being forwarded
		b.gate.mu.Unlock()
	}
	b.mu.Lock()
	i := b.calls
	b.calls++
	b.inside++
	if b.inside > b.maxInside {
		b.maxInside = b.inside
	}
	// the counter must cover at least the requests that are inside the forwarding window
	if atomic.LoadInt64(&b.host.Conns) < int64(b.inside) {
		b.mismatch = true
	}
	b.mu.Unlock()
	verifrt.Yield()
	b.mu.Lock()
	b.inside--
	b.mu.Unlock()
	switch b.outcomes[i%len(b.outcomes)] {
	case 1:
		return nil, errors.New("backend failed")
	case 2:
		panic("transport panic")
	}
	return &http.Response{StatusCode: 200, Header: http.Header{}, Body: http.NoBody}, nil
}

// zzGate wraps the real upstream: after the real Select returned, the request waits until all
// requests of the round have selected. This is the window between choosing a backend and counting
// the request, made deterministic so that a schedule found by the engine replays natively.
type zzGate struct {
	Upstream
	n       int
	mu      sync.Mutex
	arrived int
	open    chan struct{}
	enabled bool
	pending int // requests that have selected a backend and are not yet being forwarded
}

func (g *zzGate) Select(r *http.Request) *UpstreamHost {
	// counted from before the availability check until the request is being forwarded (or was refused)
	g.mu.Lock()
	g.pending++
	if g.pending >= 2 {
		// two requests are between "checking availability" and "counted and forwarded" at the same
		// time: the history class of the recorded known finding (check-then-act on max_conns)
		verifrt.Tag("two-requests-between-select-and-forward")
	}
	g.mu.Unlock()
	h := g.Upstream.Select(r)
	if h == nil {
		g.mu.Lock()
		g.pending--
		g.mu.Unlock()
	}
	if !g.enabled {
		return h
	}
	g.mu.Lock()
	g.arrived++
	if g.arrived == g.n {
		close(g.open)
	}
	g.mu.Unlock()
	select {
	case <-g.open:
	case <-time.After(2 * time.Second):
	}
	return h
}

// VerifH14aAccounting: N concurrent proxied requests through one upstream block.
func VerifH14aAccounting() {
	verifrt.Budget(2000000) // a retry loop that never ends is cut here (paths need < 50 k instructions)
	verifrt.Concurrent(1 + verifrt.Tier())
	n := 2
	maxConns := int64(verifrt.IntRange("max_conns", 0, 2))
	failTimeout := 10 * time.Second
	maxFails := []int32{3, 1}[verifrt.Choose("max_fails", 2)]
	u := &staticUpstream{from: "/", MaxFails: maxFails, FailTimeout: failTimeout, MaxConns: maxConns}
	h, err := u.NewHost("http://backend")
	if err != nil {
		verifrt.Fail("newhost")
		return
	}
	be := &zzCountingBackend{host: h}
	for i := 0; i < n; i++ {
		be.outcomes = append(be.outcomes, verifrt.Choose("outcome", 3))
	}
	h.ReverseProxy.Transport = be
	h.ReverseProxy.FlushInterval = 0
	u.Hosts = HostPool{h}
	gate := &zzGate{Upstream: u, n: n, open: make(chan struct{}), enabled: verifrt.Bool("select-window")}
	be.gate = gate
	p := Proxy{Upstreams: []Upstream{gate}}
	var wg sync.WaitGroup
	statuses := make([]int, n)
	for i := 0; i < n; i++ {
		wg.Add(1)
		go func(i int) {
			defer wg.Done()
			defer func() {
				if recover() != nil {
					statuses[i] = -1 // net/http recovers handler panics per connection
				}
			}()
			r := &http.Request{Method: "GET", URL: &url.URL{Path: "/"}, Header: http.Header{}, Host: "site", RemoteAddr: "1.2.3.4:5"}
			st, _ := p.ServeHTTP(&zzW14{}, r)
			statuses[i] = st
		}(i)
	}
	wg.Wait()
	verifrt.Assert(!be.mismatch, "in-flight-count-covers-forwarded-requests")
	if maxConns > 0 {
		verifrt.Assert(int64(be.maxInside) <= maxConns, "max-conns-never-exceeded")
	}
	verifrt.Assert(atomic.LoadInt64(&h.Conns) == 0, "in-flight-returns-to-zero")
	nfail := 0
	for i := 0; i < be.calls && i < n; i++ {
		if be.outcomes[i] == 1 {
			nfail++
		}
	}
	// no time has passed: every failed forward is on record (also one that fails while the backend
	// is already marked down), and nothing else is
	verifrt.Assert(int(atomic.LoadInt32(&h.Fails)) == nfail, "every-failure-recorded-for-fail-timeout")
	verifrt.DrainGoroutines() // the expiry goroutines have started their sleep
	verifrt.AdvanceTime(failTimeout + time.Second)
	if verifrt.Symbolic() {
		// (natively the expiry is wall-clock time: not waited for)
		verifrt.Assert(atomic.LoadInt32(&h.Fails) == 0, "failures-expire-after-fail-timeout")
	}
	verifrt.Observe("acc", be.calls)
}

// VerifH14bOneStep: from an arbitrary pre-state one proxied request restores the in-flight count on
// return and on panic, and records exactly one failure that expires after fail_timeout.
func VerifH14bOneStep() {
	verifrt.Budget(2000000) // a retry loop that never ends is cut here (paths need < 50 k instructions)
	failTimeout := 10 * time.Second
	u := &staticUpstream{from: "/", MaxFails: 1 << 30, FailTimeout: failTimeout}
	h, err := u.NewHost("http://backend")
	if err != nil {
		verifrt.Fail("newhost")
		return
	}
	c0 := verifrt.Int64("conns0")
	verifrt.Assume(c0 >= 0 && c0 < 1<<62)
	f0 := verifrt.Int32("fails0")
	verifrt.Assume(f0 >= 0 && f0 < 1<<29)
	h.Conns, h.Fails = c0, f0
	outcome := verifrt.Choose("outcome", 3)
	be := &zzCountingBackend{host: h, outcomes: []int{outcome}}
	h.ReverseProxy.Transport = be
	h.ReverseProxy.FlushInterval = 0
	u.Hosts = HostPool{h}
	p := Proxy{Upstreams: []Upstream{u}}
	panicked := false
	func() {
		defer func() {
			if recover() != nil {
				panicked = true
			}
		}()
		r := &http.Request{Method: "GET", URL: &url.URL{Path: "/"}, Header: http.Header{}, Host: "site", RemoteAddr: "1.2.3.4:5"}
		p.ServeHTTP(&zzW14{}, r)
	}()
	verifrt.Assert(panicked == (outcome == 2), "panic-propagates-to-the-server")
	verifrt.Assert(h.Conns == c0, "in-flight-restored")
	if outcome == 1 {
		verifrt.Assert(h.Fails == f0+1, "one-failure-recorded")
	} else {
		verifrt.Assert(h.Fails == f0, "no-failure-recorded")
	}
	if verifrt.Symbolic() {
		verifrt.Concurrent(0)
		verifrt.DrainGoroutines()
		verifrt.AdvanceTime(failTimeout - time.Second)
		if outcome == 1 {
			verifrt.Assert(h.Fails == f0+1, "failure-counts-until-fail-timeout")
		}
		verifrt.AdvanceTime(2 * time.Second)
		verifrt.Assert(h.Fails == f0, "failure-expires-after-fail-timeout")
	}
}

// zzFailoverBackend checks, from inside each forwarding window of a single request that may fail
// over from one backend to the next, that every backend's in-flight counter equals the number of
// requests being forwarded to it at that moment.
type zzFailoverBackend struct {
	idx     int
	hosts   *HostPool
	fail    bool
	calls   int
	badSelf bool
	badPeer bool
}

func (b *zzFailoverBackend) RoundTrip(req *http.Request) (*http.Response, error) {
	b.calls++
	for i, h := range *b.hosts {
		c := atomic.LoadInt64(&h.Conns)
		if i == b.idx && c != 1 {
			b.badSelf = true
		}
		if i != b.idx && c != 0 {
			b.badPeer = true
		}
	}
	if b.fail {
		return nil, errors.New("backend failed")
	}
	return &http.Response{StatusCode: 200, Header: http.Header{}, Body: http.NoBody}, nil
}

// VerifH14cFailover: one request, 2..3 backends, any subset failing, retries enabled: while the
// request is being forwarded to one backend no other backend counts it as in flight (so max_conns
// of a backend that already failed is not consumed), and all counters return to zero.
func VerifH14cFailover() {
	verifrt.Budget(2000000) // a retry loop that never ends is cut here (paths need < 50 k instructions)
	n := verifrt.IntRange("hosts", 2, 3)
	u := &staticUpstream{from: "/", MaxFails: 1, FailTimeout: 10 * time.Second, MaxConns: 1, TryDuration: 3 * time.Second, TryInterval: 250 * time.Millisecond,
		Policy: &First{}}
	var bes []*zzFailoverBackend
	for i := 0; i < n; i++ {
		h, err := u.NewHost("http://backend")
		if err != nil {
			verifrt.Fail("newhost")
			return
		}
		be := &zzFailoverBackend{idx: i, hosts: &u.Hosts, fail: verifrt.Bool("fails")}
		h.ReverseProxy.Transport = be
		h.ReverseProxy.FlushInterval = 0
		u.Hosts = append(u.Hosts, h)
		bes = append(bes, be)
	}
	p := Proxy{Upstreams: []Upstream{u}}
	r := &http.Request{Method: "GET", URL: &url.URL{Path: "/"}, Header: http.Header{}, Host: "site", RemoteAddr: "1.2.3.4:5"}
	p.ServeHTTP(&zzW14{}, r)
	calls := 0
	for i, be := range bes {
		calls += be.calls
		verifrt.Assert(!be.badSelf, "forwarding-backend-counts-the-request-once")
		verifrt.Assert(!be.badPeer, "no-other-backend-counts-the-request")
		verifrt.Assert(atomic.LoadInt64(&u.Hosts[i].Conns) == 0, "in-flight-returns-to-zero")
	}
	verifrt.Observe("failover", calls)
}

// zzScriptedRT answers health-check probes and proxied requests from a script.
type zzScriptedRT struct{ fail bool }

func (t *zzScriptedRT) RoundTrip(req *http.Request) (*http.Response, error) {
	if t.fail {
		return nil, errors.New("connection refused")
	}
	return &http.Response{StatusCode: 200, Header: http.Header{}, Body: http.NoBody, Request: req}, nil
}

// VerifH14dHealthCheckedOutage: a short outage seen both by a proxied request (one recorded failure)
// and by the health checker (down, then up again, possibly several probes) leaves the failure count
// consistent: never negative, zero once fail_timeout has passed, and the next failure counts as one
// (the backend is down again at max_fails 1).
func VerifH14dHealthCheckedOutage() {
	verifrt.Budget(2000000) // a retry loop that never ends is cut here (paths need < 50 k instructions)
	failTimeout := 10 * time.Second
	if !verifrt.Symbolic() {
		failTimeout = 20 * time.Millisecond // natively AdvanceTime sleeps at most 50ms
	}
	verifrt.Concurrent(0)
	u := &staticUpstream{from: "/", MaxFails: 1, FailTimeout: failTimeout}
	h, err := u.NewHost("http://backend")
	if err != nil {
		verifrt.Fail("newhost")
		return
	}
	be := &zzScriptedRT{fail: true}
	h.ReverseProxy.Transport = be
	h.ReverseProxy.FlushInterval = 0
	u.Hosts = HostPool{h}
	probe := &zzScriptedRT{}
	u.HealthCheck.Path = "/health"
	u.HealthCheck.Client = http.Client{Transport: probe}
	// under the engine the client's plumbing (cookies, timers, redirects) is cut short
	verifrt.Stub("(*net/http.Client).Do", func(c *http.Client, req *http.Request) (*http.Response, error) { return c.Transport.RoundTrip(req) })
	p := Proxy{Upstreams: []Upstream{u}}
	serve := func() {
		r := &http.Request{Method: "GET", URL: &url.URL{Path: "/"}, Header: http.Header{}, Host: "site", RemoteAddr: "1.2.3.4:5"}
		p.ServeHTTP(&zzW14{}, r)
	}
	serve() // the backend is failing: one failure on record
	verifrt.Assert(atomic.LoadInt32(&h.Fails) == 1, "one-failure-recorded")
	nDown := verifrt.IntRange("probes-while-down", 0, 2)
	probe.fail = true
	for i := 0; i < nDown; i++ {
		u.healthCheck()
	}
	probe.fail, be.fail = false, false
	nUp := verifrt.IntRange("probes-after-recovery", 0, 2)
	for i := 0; i < nUp; i++ {
		u.healthCheck()
		verifrt.Assert(atomic.LoadInt32(&h.Fails) >= 0, "failure-count-never-negative")
	}
	verifrt.DrainGoroutines()
	verifrt.AdvanceTime(failTimeout + time.Second)
	verifrt.Assert(atomic.LoadInt32(&h.Fails) == 0, "failure-count-returns-to-zero")
	if atomic.LoadInt32(&h.Unhealthy) != 0 {
		// no probe has seen the recovery yet: the checker keeps the backend out of rotation
		verifrt.Observe("outage", nDown, nUp)
		return
	}
	// the next outage: one failure makes the backend unavailable again
	be.fail = true
	serve()
	verifrt.Assert(atomic.LoadInt32(&h.Fails) == 1, "next-failure-counts-as-one")
	verifrt.Assert(u.Select(&http.Request{Header: http.Header{}}) == nil || atomic.LoadInt32(&h.Unhealthy) == 0 && !h.Available(), "backend-down-at-max-fails")
	verifrt.DrainGoroutines()
	verifrt.AdvanceTime(failTimeout + time.Second)
	verifrt.Observe("outage", nDown, nUp)
}

// VerifH14eStaggeredFailures: failures recorded at different moments expire one by one, each
// fail_timeout after it was recorded: the count at any time is the number of failures younger than
// fail_timeout, and the backend is down exactly while that number reaches max_fails.
func VerifH14eStaggeredFailures() {
	verifrt.Budget(2000000)
	verifrt.Concurrent(0)
	// virtual seconds under the engine; natively (only when a counterexample is confirmed) real time
	// scaled 1:20, with every check at least one virtual second away from any expiry
	unit := time.Second
	advance := verifrt.AdvanceTime
	if !verifrt.Symbolic() {
		unit = 50 * time.Millisecond
		advance = time.Sleep
	}
	failTimeout := 10 * unit
	maxFails := int32(verifrt.IntRange("max_fails", 1, 3))
	u := &staticUpstream{from: "/", MaxFails: maxFails, FailTimeout: failTimeout}
	h, err := u.NewHost("http://backend")
	if err != nil {
		verifrt.Fail("newhost")
		return
	}
	h.ReverseProxy.Transport = &zzScriptedRT{fail: true}
	h.ReverseProxy.FlushInterval = 0
	u.Hosts = HostPool{h}
	p := Proxy{Upstreams: []Upstream{u}}
	// up to three failing requests, 4 s or 7 s apart; a request is only forwarded while the backend is up
	now := time.Duration(0)
	var recorded []time.Duration
	check := func() {
		alive := 0
		for _, t := range recorded {
			if now-t < failTimeout {
				alive++
			}
		}
		verifrt.Assert(int(atomic.LoadInt32(&h.Fails)) == alive, "count-is-the-number-of-unexpired-failures")
		verifrt.Assert(h.Available() == (alive < int(maxFails)), "down-exactly-while-max-fails-unexpired-failures")
	}
	nreq := verifrt.IntRange("requests", 1, 3)
	for i := 0; i < nreq; i++ {
		if h.Available() {
			r := &http.Request{Method: "GET", URL: &url.URL{Path: "/"}, Header: http.Header{}, Host: "site", RemoteAddr: "1.2.3.4:5"}
			p.ServeHTTP(&zzW14{}, r)
			recorded = append(recorded, now)
		}
		verifrt.DrainGoroutines()
		check()
		step := []time.Duration{4 * unit, 7 * unit}[verifrt.Choose("gap", 2)]
		advance(step)
		now += step
		check()
	}
	advance(failTimeout + unit)
	now += failTimeout + unit
	check()
}
