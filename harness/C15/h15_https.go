//go:build verif

// verif:package caskethttp/httpserver
package httpserver

import (
	"context"
	"errors"
	"net/http"
	"net/url"
	"strings"

	"github.com/caddyserver/certmagic"
	"github.com/tmpim/casket/caskettls"
	"github.com/tmpim/casket/zzverif/verifrt"
)

type zzHostClass struct {
	host   string
	public bool // a DNS name that can receive a public certificate
}

func zzHostClasses() []zzHostClass {
	l := verifrt.String("label", 1)
	verifrt.Assume((l[0] >= 'a' && l[0] <= 'z') || (l[0] >= '0' && l[0] <= '9'))
	return []zzHostClass{
		{"", false}, {"localhost", false}, {"127.0.0.1", false}, {"10.0.0.1", false}, {"172.16.0.1", false},
		{"192.168.1.1", false}, {"8.8.8.8", false}, {"::1", false}, {"[::1]", false}, {"fc00::1", false},
		{l + ".com", true}, {"sub." + l + ".org", true}, {l + ".localhost", false}, {l + ".local", false},
		{l + ".test", false}, {l + ".example", false}, {l + ".invalid", false}, {l + ".home.arpa", false},
		{"*." + l + ".com", true}, {"*.com", false}, {l + ".*.com", false},
		// the same reserved suffixes with more labels in front (the suffix is the LAST label)
		{"www." + l + ".test", false}, {"a." + l + ".example", false}, {"x.y." + l + ".invalid", false}, {"www." + l + ".localhost", false},
		{l + ".test.com", true},
	}
}

// VerifH15aQualification: a site gets managed HTTPS exactly when it qualifies.
func VerifH15aQualification() {
	classes := zzHostClasses()
	hc := classes[verifrt.Choose("host", len(classes))]
	scheme := []string{"", "http", "https"}[verifrt.Choose("scheme", 3)]
	port := []string{"", "80", "443", "8080"}[verifrt.Choose("port", 4)]
	// standardizeAddress rejects http://…:443 and https://…:80 and fills the port from the scheme
	verifrt.Assume(!(scheme == "http" && port == "443") && !(scheme == "https" && port == "80"))
	if port == "" && scheme == "http" {
		port = "80"
	}
	if port == "" && scheme == "https" {
		port = "443"
	}
	manual := verifrt.Bool("manual")
	selfSigned := verifrt.Bool("selfsigned")
	email := []string{"", "off", "x@y.z"}[verifrt.Choose("email", 3)]
	tc := &caskettls.Config{Hostname: hc.host, Manual: manual, SelfSigned: selfSigned, ACMEEmail: email, Manager: &certmagic.Config{}}
	if email == "off" {
		tc.Enabled = false
	} else if manual || selfSigned {
		tc.Enabled = true
	}
	enabledBefore := tc.Enabled
	cfg := &SiteConfig{Addr: Address{Original: hc.host, Scheme: scheme, Host: hc.host, Port: port}, TLS: tc}
	if verifrt.Bool("bind-public-address") {
		cfg.ListenHost = "203.0.113.5" // binding to a public interface does not change what the host qualifies for
	}
	cfgs := []*SiteConfig{cfg}
	markQualifiedForAutoHTTPS(cfgs)
	if err := enableAutoHTTPS(cfgs, false); err != nil {
		verifrt.Fail("enable-auto-https")
	}
	want := hc.public && scheme != "http" && port != "80" && !manual && !selfSigned && email != "off"
	verifrt.Assert(tc.Managed == want, "managed-iff-qualifies")
	if want {
		verifrt.Assert(tc.Enabled && cfg.Addr.Scheme == "https", "managed-site-has-tls")
		if port == "" {
			verifrt.Assert(cfg.Addr.Port == "443", "default-https-port")
		} else {
			verifrt.Assert(cfg.Addr.Port == port, "explicit-port-kept")
		}
		verifrt.Assert(tc.ProtocolMinVersion != 0, "tls-defaults-applied")
	} else {
		verifrt.Assert(tc.Enabled == enabledBefore, "unqualified-site-unchanged")
	}
	verifrt.Observe("q", tc.Managed)
}

// VerifH15bRedirectSynthesis: exactly one redirect site host:80 for every HTTPS host that has no
// plaintext site of its own on the HTTP port; none otherwise, and none for an HTTP address.
func VerifH15bRedirectSynthesis() {
	n := verifrt.IntRange("nsites", 1, 3)
	var cfgs []*SiteConfig
	for i := 0; i < n; i++ {
		host := []string{"a.com", "b.com"}[verifrt.Choose("host", 2)]
		port := []string{"80", "443", "8443"}[verifrt.Choose("port", 3)]
		tc := &caskettls.Config{Hostname: host, Manager: &certmagic.Config{}}
		tc.Enabled = verifrt.Bool("tls") && port != "80" // plaintext sites never have TLS enabled (MakeServers)
		tc.NoRedirect = verifrt.Bool("noredirect")
		cfgs = append(cfgs, &SiteConfig{Addr: Address{Original: host + ":" + port, Host: host, Port: port}, TLS: tc})
	}
	// no duplicate addresses
	for i := range cfgs {
		for j := 0; j < i; j++ {
			verifrt.Assume(!(cfgs[i].Addr.Host == cfgs[j].Addr.Host && cfgs[i].Addr.Port == cfgs[j].Addr.Port))
		}
	}
	orig := append([]*SiteConfig{}, cfgs...)
	out := makePlaintextRedirects(cfgs)
	added := out[len(orig):]
	for i := range orig {
		verifrt.Assert(out[i] == orig[i], "existing-sites-kept")
	}
	for _, host := range []string{"a.com", "b.com"} {
		hasPlain, wantsRedirect := false, false
		for _, c := range orig {
			if c.Addr.Host != host {
				continue
			}
			if c.Addr.Port == "80" {
				hasPlain = true
			}
			if c.TLS.Enabled && !c.TLS.NoRedirect {
				wantsRedirect = true
			}
		}
		count := 0
		for _, c := range added {
			if c.Addr.Host == host {
				count++
				verifrt.Assert(c.Addr.Port == "80" && !c.TLS.Enabled, "redirect-site-is-plain-http-on-80")
			}
		}
		if hasPlain || !wantsRedirect {
			verifrt.Assert(count == 0, "no-redirect-when-not-due")
		} else {
			verifrt.Assert(count <= 1, "at-most-one-redirect-per-host")
			// a redirect is due unless every redirecting site of this host sits on a non-default
			// port while a sibling without redirect owns 443 (then the 443 site decides)
			due := false
			for _, c := range orig {
				if c.Addr.Host == host && c.TLS.Enabled && !c.TLS.NoRedirect {
					if c.Addr.Port == "443" {
						due = true
					} else {
						sibling443 := false
						for _, d := range orig {
							if d != c && d.Addr.Host == host && d.Addr.Port == "443" {
								sibling443 = true
							}
						}
						if !sibling443 {
							due = true
						}
					}
				}
			}
			if due {
				verifrt.Assert(count == 1, "redirect-synthesised")
			}
		}
	}
	verifrt.Observe("added", len(added))
}

type zzRW15 struct {
	hdr    http.Header
	status int
}

func (w *zzRW15) Header() http.Header {
	if w.hdr == nil {
		w.hdr = http.Header{}
	}
	return w.hdr
}
func (w *zzRW15) WriteHeader(c int) {
	if w.status == 0 {
		w.status = c
	}
}
func (w *zzRW15) Write(p []byte) (int, error) { return len(p), nil }

// VerifH15cRedirectHandler: the synthesised site answers every request with a permanent redirect
// to the same host, path and query over https, port omitted when it is the HTTPS default.
func VerifH15cRedirectHandler() {
	port := []string{"443", "8443"}[verifrt.Choose("httpsport", 2)]
	cfg := &SiteConfig{Addr: Address{Host: "a.com", Port: port}, TLS: &caskettls.Config{Enabled: true, Manager: &certmagic.Config{}}}
	rs := redirPlaintextHost(cfg)
	verifrt.Assert(len(rs.middleware) == 1, "one-middleware")
	h := rs.middleware[0](nil)
	var host string
	switch verifrt.Choose("hostkind", 4) {
	case 0:
		host = "a.com"
	case 1:
		host = "[::1]"
	case 2:
		host = "10.0.0.1"
	default:
		hn := verifrt.IntRange("hostlen", 1, 2)
		host = verifrt.String("host", hn)
		for i := 0; i < hn; i++ {
			c := host[i]
			verifrt.Assume((c >= 'a' && c <= 'b') || c == '.' || c == '-')
		}
	}
	rawHost := host
	if verifrt.Bool("withport") {
		rawHost += ":80"
	}
	pn := verifrt.IntRange("plen", 0, 2+2*verifrt.Tier())
	p := "/" + verifrt.String("p", pn)
	for i := 1; i < len(p); i++ {
		c := p[i]
		verifrt.Assume(c == 'a' || c == '/' || c == '.')
	}
	q := ""
	if verifrt.Bool("query") {
		q = "k=v"
	}
	u := &url.URL{Path: p, RawQuery: q}
	if verifrt.Bool("encoded-slash") {
		// the client wrote /a%2Fb: the same spelling must come back in the Location
		u = &url.URL{Path: "/a/b", RawPath: "/a%2Fb", RawQuery: q}
		p = "/a%2Fb"
	}
	r := &http.Request{Method: "GET", Host: rawHost, URL: u, Header: http.Header{}}
	w := &zzRW15{}
	h.ServeHTTP(w, r)
	want := "https://" + host
	if port != "443" {
		want += ":" + port
	}
	want += p
	if q != "" {
		want += "?" + q
	}
	verifrt.Assert(w.status == 301, "permanent-redirect")
	verifrt.Assert(w.Header().Get("Location") == want, "same-host-path-query-over-https")
	verifrt.Assert(w.Header().Get("Connection") == "close", "connection-close")
	verifrt.Assert(strings.HasPrefix(w.Header().Get("Location"), "https://"), "never-back-to-http")
	verifrt.Observe("loc", w.Header().Get("Location"))
}

// VerifH15dMakeServers: whatever a shared block's tls directive switched on, a site declared as
// plain HTTP (http:// scheme or the HTTP port) never has TLS enabled once the servers are made,
// and a TLS site keeps it.
func VerifH15dMakeServers() {
	n := verifrt.IntRange("nsites", 1, 2)
	var cfgs []*SiteConfig
	type decl struct {
		scheme, port string
		enabled      bool
	}
	var decls []decl
	for i := 0; i < n; i++ {
		scheme := []string{"", "http", "https"}[verifrt.Choose("scheme", 3)]
		port := []string{"", "80", "443", "8080", "2015"}[verifrt.Choose("port", 5)]
		host := []string{"a.com", "b.com"}[i]
		tc := &caskettls.Config{Hostname: host, Manager: &certmagic.Config{}}
		tc.Enabled = verifrt.Bool("tls-enabled-by-directive")
		switch verifrt.Choose("tls-kind", 3) {
		case 0:
			tc.SelfSigned = true
		case 1:
			tc.Manual = true
		}
		orig := host
		if scheme != "" {
			orig = scheme + "://" + host
		}
		if port != "" {
			orig += ":" + port
		}
		// the address as the server type itself reads it from the block's key
		addr, err := standardizeAddress(orig)
		verifrt.Assume(err == nil) // http://host:443 and https://host:80 are refused when the key is read
		cfgs = append(cfgs, &SiteConfig{Addr: addr, TLS: tc})
		decls = append(decls, decl{scheme, addr.Port, tc.Enabled})
	}
	h := &httpContext{keysToSiteConfigs: map[string]*SiteConfig{}}
	h.siteConfigs = cfgs
	_, _ = h.MakeServers() // an error (say, TLS and plaintext on one listener) still leaves the flags decided
	for i, c := range cfgs {
		if decls[i].scheme == "http" || decls[i].port == "80" {
			verifrt.Assert(!c.TLS.Enabled, "plain-http-site-never-has-tls")
		} else {
			verifrt.Assert(c.TLS.Enabled == decls[i].enabled, "tls-site-keeps-tls")
		}
	}
	verifrt.Observe("n", n)
}

// VerifH15eCertificateLoadFault: when a managed site's certificate cannot be loaded at start,
// the start is refused or the site still has TLS on -- it is never left qualifying, managed and
// served in plaintext.
func VerifH15eCertificateLoadFault() {
	verifrt.Stub("(*github.com/caddyserver/certmagic.Config).CacheManagedCertificate",
		func(*certmagic.Config, context.Context, string) (certmagic.Certificate, error) {
			return certmagic.Certificate{}, errors.New("certificate load failed")
		})
	n := verifrt.IntRange("nsites", 1, 2)
	var cfgs []*SiteConfig
	for i := 0; i < n; i++ {
		host := []string{"a.com", "b.com"}[i]
		m := certmagic.NewDefault()
		m.Storage = &certmagic.FileStorage{Path: verifrt.FSRoot() + "/certmagic"}
		tc := &caskettls.Config{Hostname: host, Manager: m, Managed: verifrt.Bool("managed")}
		cfgs = append(cfgs, &SiteConfig{Addr: Address{Original: host, Host: host}, TLS: tc})
	}
	err := enableAutoHTTPS(cfgs, true)
	for _, c := range cfgs {
		if err == nil && c.TLS.Managed {
			verifrt.Assert(c.TLS.Enabled, "managed-site-never-left-in-plaintext")
		}
	}
	verifrt.Observe("err", err != nil)
}
