//go:build verif

// verif:package .
package casket

import (
	"errors"
	"net"
	"strings"
	"sync"
	"time"

	"github.com/tmpim/casket/casketfile"
	"github.com/tmpim/casket/zzverif/verifrt"
)

// ---- a recording server type ----

var (
	zzLifeMu  sync.Mutex
	zzLifeLog []string
	zzOpenLn  = map[*zzLifeLn]bool{} // listeners opened and not closed
)

func zzEvent(s string) {
	zzLifeMu.Lock()
	zzLifeLog = append(zzLifeLog, s)
	zzLifeMu.Unlock()
}

type zzLifeLn struct {
	tag    string
	closed bool
}

func (l *zzLifeLn) Accept() (net.Conn, error) { return nil, errors.New("use of closed network connection") }
func (l *zzLifeLn) Close() error {
	if !l.closed {
		l.closed = true
		zzLifeMu.Lock()
		delete(zzOpenLn, l)
		zzLifeMu.Unlock()
	}
	return nil
}
func (l *zzLifeLn) Addr() net.Addr { return &net.TCPAddr{Port: 80} }

type zzLifeServer struct {
	tag        string
	failListen bool
	failPacket bool
	stop       chan struct{}
	stopOnce   sync.Once
	ln         *zzLifeLn
	graceful   bool
}

func (s *zzLifeServer) Listen() (net.Listener, error) {
	if s.failListen {
		zzEvent("listenfail@" + s.tag)
		return nil, errors.New("listen: address already in use")
	}
	s.ln = &zzLifeLn{tag: s.tag}
	zzLifeMu.Lock()
	zzOpenLn[s.ln] = true
	zzLifeMu.Unlock()
	zzEvent("listen@" + s.tag)
	return s.ln, nil
}
func (s *zzLifeServer) Serve(ln net.Listener) error {
	zzEvent("serve@" + s.tag)
	<-s.stop
	if !verifrt.Symbolic() && !strings.HasPrefix(s.tag, "A") {
		// natively the loops of later instances take a moment to wind down, so that a Wait which does
		// not cover them returns visibly early (the engine's scheduler shows this without a delay)
		time.Sleep(40 * time.Millisecond)
	}
	zzEvent("served@" + s.tag)
	return errors.New("use of closed network connection")
}
func (s *zzLifeServer) ListenPacket() (net.PacketConn, error) {
	if s.failPacket {
		zzEvent("packetfail@" + s.tag)
		return nil, errors.New("listen udp: address already in use")
	}
	return nil, nil
}
func (s *zzLifeServer) ServePacket(net.PacketConn) error      { return nil }
func (s *zzLifeServer) Stop() error {
	s.stopOnce.Do(func() {
		zzEvent("stop@" + s.tag)
		if s.ln != nil {
			s.ln.Close()
		}
		close(s.stop)
	})
	return nil
}
func (s *zzLifeServer) Address() string                       { return ":80/" + s.tag }
func (s *zzLifeServer) WrapListener(ln net.Listener) net.Listener { return ln }

type zzLifeCtx struct {
	tag   string
	fault string
}

func (c *zzLifeCtx) InspectServerBlocks(f string, b []casketfile.ServerBlock) ([]casketfile.ServerBlock, error) {
	return b, nil
}
func (c *zzLifeCtx) MakeServers() ([]Server, error) {
	if c.fault == "noservers" {
		return nil, nil // an instance without servers (callbacks only)
	}
	s1 := &zzLifeServer{tag: c.tag + "1", stop: make(chan struct{})}
	s2 := &zzLifeServer{tag: c.tag + "2", stop: make(chan struct{}), failListen: c.fault == "listen", failPacket: c.fault == "listenpacket"}
	return []Server{s1, s2}, nil
}

func zzLifeSetup(c *Controller) error {
	ctx := c.Context().(*zzLifeCtx)
	for c.Next() {
		args := c.RemainingArgs()
		if len(args) < 1 {
			return c.ArgErr()
		}
		ctx.tag = args[0]
		if len(args) > 1 {
			ctx.fault = args[1]
		}
	}
	tag, fault := ctx.tag, ctx.fault
	if fault == "setup" {
		return errors.New("bad directive argument")
	}
	if fault == "gate" {
		// a slow directive: reports that it was reached, waits to be released, then fails
		zzAtGate <- struct{}{}
		<-zzGate
		return errors.New("gated directive failed")
	}
	cb := func(kind string, fail bool) func() error {
		return func() error {
			zzEvent(kind + "@" + tag)
			if fail {
				return errors.New(kind + " callback failed")
			}
			return nil
		}
	}
	// like the `on` directive: callbacks of a server block are registered once, however many keys
	// (site addresses) the block has
	return c.OncePerServerBlock(func() error {
		c.OnFirstStartup(cb("firststartup", false))
		c.OnStartup(cb("startup", fault == "startup"))
		c.OnRestart(cb("restart", fault == "onrestart"))
		c.OnRestartFailed(cb("restartfailed", false))
		c.OnShutdown(cb("shutdown", fault == "onshutdown"))
		c.OnFinalShutdown(cb("finalshutdown", false))
		return nil
	})
}

func zzLifeRegister() {
	if _, err := getServerType("zzlife"); err == nil {
		return
	}
	RegisterServerType("zzlife", ServerType{
		Directives:   func() []string { return []string{"life"} },
		DefaultInput: func() Input { return nil },
		NewContext:   func(inst *Instance) Context { return &zzLifeCtx{} },
	})
	RegisterPlugin("life", Plugin{ServerType: "zzlife", Action: zzLifeSetup})
}

// zzGate/zzAtGate: hand-offs for a load that is held inside a directive's setup.
var zzGate, zzAtGate chan struct{}

// zzTwoKeys: the server block is written with two site addresses.
var zzTwoKeys bool

func zzInput(tag, fault string) Input {
	keys := "site"
	if zzTwoKeys {
		keys = "site, site2"
	}
	body := keys + "\nlife " + tag + " " + fault + "\n"
	if fault == "parse" {
		body = "site {\nlife " + tag + "\n"
	}
	return CasketfileInput{Filepath: "Casketfile", Contents: []byte(body), ServerTypeName: "zzlife"}
}

// zzSyncEvents: the recorded events without the asynchronous serve/served markers.
func zzSyncEvents() []string {
	zzLifeMu.Lock()
	defer zzLifeMu.Unlock()
	var out []string
	for _, e := range zzLifeLog {
		if !strings.HasPrefix(e, "serve") {
			out = append(out, e)
		}
	}
	return out
}

func zzHas(ev string) bool {
	zzLifeMu.Lock()
	defer zzLifeMu.Unlock()
	for _, e := range zzLifeLog {
		if e == ev {
			return true
		}
	}
	return false
}

// VerifH16Lifecycle: callbacks across start / reload (ok or failing at each stage) / shutdown, and
// what a failed reload leaves behind (C08).
func VerifH16Lifecycle() {
	// goroutines (server loops, error logger) run deterministically whenever the caller blocks:
	// the subject here is the history of operations, not the interleaving of independent server loops
	verifrt.Concurrent(-1)
	zzLifeRegister()
	zzLifeMu.Lock()
	zzLifeLog = nil
	zzOpenLn = map[*zzLifeLn]bool{}
	zzLifeMu.Unlock()
	instances = nil
	shutdownCallbacksOnce = sync.Once{}
	Quiet = true // no file-descriptor-limit notice (a getrlimit system call)

	zzTwoKeys = verifrt.Bool("two-keys-on-the-block")
	firstFault := []string{"", "onrestart", "onshutdown"}[verifrt.Choose("first-instance-callback-fault", 3)]
	cur, err := Start(zzInput("A", firstFault))
	if err != nil {
		verifrt.Fail("initial-start")
		return
	}
	first := cur // the instance the casket binary waits on, whatever reloads follow
	want := []string{"firststartup@A", "startup@A", "listen@A1", "listen@A2"}
	curTag, curFault := "A", firstFault
	live := []string{"A"} // tags of the live instances, in the order of the instance list
	if verifrt.Bool("second-instance") {
		// an independent second Start in the same process: it is an initial start of its own
		if _, err := Start(zzInput("S", "")); err != nil {
			verifrt.Fail("second-start")
			return
		}
		want = append(want, "firststartup@S", "startup@S", "listen@S1", "listen@S2")
		live = append(live, "S")
	}
	nops := verifrt.IntRange("nops", 0, 2+verifrt.Tier())
	faults := []string{"", "parse", "setup", "startup", "listen", "listenpacket"}
	for op := 0; op < nops; op++ {
		newTag := []string{"B", "C", "D", "F"}[op]
		fault := faults[verifrt.Choose("reload", len(faults))]
		before := append([]*Instance{}, Instances()...)
		openBefore := len(zzOpenLn)
		next, rerr := cur.Restart(zzInput(newTag, fault))
		want = append(want, "restart@"+curTag)
		ok := curFault != "onrestart" && fault == ""
		switch {
		case curFault == "onrestart":
			want = append(want, "restartfailed@"+curTag)
		case fault == "parse" || fault == "setup":
			want = append(want, "restartfailed@"+curTag)
		case fault == "startup":
			want = append(want, "startup@"+newTag, "restartfailed@"+curTag)
		case fault == "listen":
			want = append(want, "startup@"+newTag, "listen@"+newTag+"1", "listenfail@"+newTag+"2", "restartfailed@"+curTag)
		case fault == "listenpacket":
			want = append(want, "startup@"+newTag, "listen@"+newTag+"1", "listen@"+newTag+"2", "packetfail@"+newTag+"2", "restartfailed@"+curTag)
		default:
			want = append(want, "startup@"+newTag, "listen@"+newTag+"1", "listen@"+newTag+"2", "stop@"+curTag+"1", "stop@"+curTag+"2", "shutdown@"+curTag)
		}
		if ok {
			verifrt.Assert(rerr == nil && next != cur, "successful-reload-returns-new-instance")
			var nl []string
			for _, t := range live {
				if t != curTag {
					nl = append(nl, t)
				}
			}
			live = append(nl, newTag)
			cur, curTag, curFault = next, newTag, ""
		} else {
			verifrt.Assert(rerr != nil && next == cur, "failed-reload-keeps-old-instance")
			// C08: a failed reload leaves the running instance list and sockets as they were
			after := Instances()
			same := len(after) == len(before)
			for i := range before {
				same = same && i < len(after) && after[i] == before[i]
			}
			verifrt.Assert(same, "failed-reload-leaves-instance-list-unchanged")
			verifrt.Assert(len(zzOpenLn) == openBefore, "failed-reload-leaves-no-extra-listener")
			verifrt.Assert(!zzHas("stop@"+curTag+"1"), "failed-reload-does-not-stop-running-servers")
		}
	}
	// process shutdown: any number of signals runs the callbacks once, then the servers stop
	nsig := verifrt.IntRange("signals", 1, 2)
	if verifrt.Bool("signals-concurrent") {
		var sw sync.WaitGroup
		for i := 0; i < nsig; i++ {
			sw.Add(1)
			go func() {
				defer sw.Done()
				executeShutdownCallbacks("SIGTERM")
			}()
		}
		sw.Wait()
	} else {
		for i := 0; i < nsig; i++ {
			executeShutdownCallbacks("SIGTERM")
		}
	}
	for _, t := range live {
		want = append(want, "shutdown@"+t, "finalshutdown@"+t)
	}
	Stop()
	for _, t := range live {
		want = append(want, "stop@"+t+"1", "stop@"+t+"2")
	}
	// waiting on the first instance returns only after every server of it AND of its successors has
	// stopped (a hang here is a deadlock); the servers record "served" when their loop ends
	first.Wait()
	verifrt.Assert(zzHas("served@"+curTag+"1") && zzHas("served@"+curTag+"2"), "wait-on-the-first-instance-covers-its-successors")
	cur.Wait()
	if verifrt.Bool("start-again-after-stop") {
		// everything has stopped; a further Start in the same process is again an initial start
		if _, err := Start(zzInput("E", "")); err != nil {
			verifrt.Fail("start-after-stop")
			return
		}
		Stop()
		want = append(want, "firststartup@E", "startup@E", "listen@E1", "listen@E2", "stop@E1", "stop@E2")
	}
	got := zzSyncEvents()
	verifrt.Assert(len(got) == len(want), "callback-count")
	for i := range want {
		if i < len(got) {
			verifrt.Assert(got[i] == want[i], "callback-order")
		}
	}
	verifrt.Assert(zzHas("served@"+curTag+"1") && zzHas("served@A1"), "wait-covers-all-servers-of-the-lineage")
	verifrt.Assert(len(zzOpenLn) == 0, "no-listener-left-open")
	verifrt.Observe("life", strings.Join(got, ","))
}

// VerifH16bShutdownPassWithStop: three live instances; while process shutdown runs the shutdown
// callbacks, a callback of the first (or second) instance has its own instance stopped from another
// goroutine and waits until that goroutine is under way (the tail of a reload, or an embedding
// program). Every live instance's shutdown and final-shutdown callbacks still run exactly once.
// One deterministic schedule: the stopping goroutine runs as far as it can each time the shutdown
// pass blocks (exploring all interleavings of the two did not finish within 25 minutes).
func VerifH16bShutdownPassWithStop() {
	verifrt.Terminates()
	verifrt.Concurrent(-1)
	zzLifeRegister()
	zzLifeMu.Lock()
	zzLifeLog = nil
	zzOpenLn = map[*zzLifeLn]bool{}
	zzLifeMu.Unlock()
	instances = nil
	shutdownCallbacksOnce = sync.Once{}
	Quiet = true
	zzTwoKeys = false
	tags := []string{"A", "B", "C"}
	var insts []*Instance
	for _, t := range tags {
		inst, err := Start(zzInput(t, "noservers"))
		if err != nil {
			verifrt.Fail("start")
			return
		}
		insts = append(insts, inst)
	}
	which := verifrt.Choose("stopped-instance", 2) // the first or the second of the three
	started, stopped := make(chan struct{}), make(chan struct{})
	insts[which].OnShutdown = append(insts[which].OnShutdown, func() error {
		go func() {
			close(started)
			insts[which].Stop()
			close(stopped)
		}()
		<-started // the other goroutine runs until it blocks (on the instance list's lock) or finishes
		return nil
	})
	executeShutdownCallbacks("SIGTERM")
	<-stopped
	for _, t := range tags {
		n, f := 0, 0
		zzLifeMu.Lock()
		for _, e := range zzLifeLog {
			if e == "shutdown@"+t {
				n++
			}
			if e == "finalshutdown@"+t {
				f++
			}
		}
		zzLifeMu.Unlock()
		verifrt.Assert(n == 1 && f == 1, "every-live-instance-shut-down-exactly-once")
	}
	Stop()
}
