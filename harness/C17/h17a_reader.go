//go:build verif

// verif:package caskethttp/limits
package limits

import (
	"errors"
	"io"

	"github.com/tmpim/casket/caskethttp/httpserver"
	"github.com/tmpim/casket/zzverif/verifrt"
)

// zzReader is the underlying body: it returns an arbitrary (k <= len(p), err) and fills p with
// arbitrary bytes, recording what it produced.
type zzReader struct {
	gotLen   int
	produced []byte
	k        int
	err      error
	calls    int
}

var zzErrUnder = errors.New("underlying error")

func (z *zzReader) Read(p []byte) (int, error) {
	z.calls++
	z.gotLen = len(p)
	k := verifrt.IntRange("k", 0, len(p))
	for i := 0; i < k; i++ {
		p[i] = verifrt.Byte("data")
	}
	z.produced = append([]byte{}, p[:k]...)
	z.k = k
	switch verifrt.Choose("underr", 3) {
	case 1:
		z.err = io.EOF
	case 2:
		z.err = zzErrUnder
	default:
		z.err = nil
	}
	return k, z.err
}

func (z *zzReader) Close() error { return nil }

// VerifH17aReadStep: one Read from an arbitrary reader state (remaining n is any int64 >= 0).
func VerifH17aReadStep() {
	n := verifrt.Int64("n")
	verifrt.Assume(n >= 0)
	under := &zzReader{}
	l := &maxBytesReader{w: nil, r: under, n: n}
	sticky := verifrt.Bool("sticky")
	if sticky {
		l.err = zzErrUnder
	}
	plen := verifrt.IntRange("plen", 0, 4)
	p := make([]byte, plen)
	got, err := l.Read(p)

	if sticky {
		verifrt.Assert(got == 0 && err == zzErrUnder && under.calls == 0, "sticky-error-returned")
		return
	}
	if plen == 0 {
		verifrt.Assert(got == 0 && err == nil && under.calls == 0, "empty-read")
		return
	}
	verifrt.Assert(under.calls == 1, "one-underlying-read")
	verifrt.Assert(got >= 0 && int64(got) <= n, "count-within-limit")
	verifrt.Assert(got <= plen, "count-within-buffer")
	verifrt.Assert(l.n == n-int64(got), "remaining-decremented")
	exceeded := int64(under.k) > n
	verifrt.Assert((err == httpserver.ErrMaxBytesExceeded) == exceeded, "too-large-iff-exceeded")
	if !exceeded {
		verifrt.Assert(err == under.err && got == under.k, "passes-through")
	}
	for i := 0; i < got; i++ {
		verifrt.Assert(p[i] == under.produced[i], "bytes-are-prefix")
	}
	// the reader never asks the underlying for more than n+1 bytes
	verifrt.Assert(int64(under.gotLen) <= n+1 || n+1 < 0, "asks-at-most-n-plus-1")
	// sticky afterwards
	if err != nil {
		g2, e2 := l.Read(p)
		verifrt.Assert(g2 == 0 && e2 == err && under.calls == 1, "error-is-sticky")
	}
	verifrt.Observe("res", got, err != nil, l.n)
}
