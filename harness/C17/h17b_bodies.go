//go:build verif

// verif:package caskethttp/limits
package limits

import (
	"bytes"
	"io"
	"net/http"
	"net/url"
	"strconv"

	"github.com/tmpim/casket/caskethttp/httpserver"
	"github.com/tmpim/casket/zzverif/verifrt"
)

// zzBody serves a fixed body in caller-chosen chunk sizes.
type zzBody struct {
	data  []byte
	pos   int
	chunk []int
	ci    int
}

func (b *zzBody) Read(p []byte) (int, error) {
	if b.pos >= len(b.data) {
		return 0, io.EOF
	}
	n := len(p)
	if k := b.chunk[b.ci%len(b.chunk)]; k > 0 && k < n {
		n = k
	}
	b.ci++
	if n > len(b.data)-b.pos {
		n = len(b.data) - b.pos
	}
	copy(p, b.data[b.pos:b.pos+n])
	b.pos += n
	if b.pos >= len(b.data) && verifrt.Bool("eof-with-data") {
		return n, io.EOF
	}
	return n, nil
}
func (b *zzBody) Close() error { return nil }

// VerifH17bWholeBody: a body is delivered intact up to the limit and cut off at the limit with the
// too-large error, for every chunking of the underlying stream and every reader buffer size.
func VerifH17bWholeBody() {
	var limit int64
	switch verifrt.Choose("limitkind", 2) {
	case 0:
		limit = int64(verifrt.IntRange("limit", 0, 3))
	default:
		limit = 1<<63 - 1
	}
	maxBody := 5
	if limit > 10 {
		maxBody = 3
	}
	bl := verifrt.IntRange("bodylen", 0, maxBody)
	data := verifrt.Bytes("body", bl)
	body := &zzBody{data: data, chunk: []int{verifrt.IntRange("chunk1", 0, 2), verifrt.IntRange("chunk2", 0, 2)}}
	rd := MaxBytesReader(nil, body, limit)
	bufLen := verifrt.IntRange("buflen", 1, 3)
	var got []byte
	var ferr error
	for i := 0; i < 16; i++ {
		p := make([]byte, bufLen)
		n, err := rd.Read(p)
		got = append(got, p[:n]...)
		if err != nil {
			ferr = err
			break
		}
	}
	want := bl
	if int64(bl) > limit {
		want = int(limit)
	}
	verifrt.Assert(len(got) == want, "delivered-length")
	for i := 0; i < want && i < len(got); i++ {
		verifrt.Assert(got[i] == data[i], "delivered-bytes")
	}
	verifrt.Assert((ferr == httpserver.ErrMaxBytesExceeded) == (int64(bl) > limit), "too-large-iff-over-limit")
	if int64(bl) <= limit {
		verifrt.Assert(ferr == io.EOF, "eof-otherwise")
	}
	verifrt.Observe("got", len(got), ferr == io.EOF)
}

type zzNextBody struct {
	ran   int
	limit int64
	had   bool
}

func (n *zzNextBody) ServeHTTP(w http.ResponseWriter, r *http.Request) (int, error) {
	n.ran++
	if mb, ok := r.Body.(*maxBytesReader); ok {
		n.had = true
		n.limit = mb.n
	}
	return 0, nil
}

func zzIn(b byte, alphabet string) bool {
	ok := false
	for i := 0; i < len(alphabet); i++ {
		ok = ok || b == alphabet[i]
	}
	return ok
}

// VerifH17cScopeSelection: the limit applied is the one configured for the longest matching path scope.
func VerifH17cScopeSelection() {
	ns := verifrt.IntRange("nscopes", 1, 3)
	var scopes, written []httpserver.PathLimit
	for i := 0; i < ns; i++ {
		pl := verifrt.IntRange("slen", 0, 2)
		p := "/" + verifrt.String("scope", pl)
		for j := 1; j < len(p); j++ {
			verifrt.Assume(zzIn(p[j], "a/"))
		}
		scopes = addPathLimit(scopes, p, int64(10+i))
		// the specification works on the scope paths as written (a later duplicate replaces the limit)
		dup := false
		for k := range written {
			if written[k].Path == p {
				written[k].Limit, dup = int64(10+i), true
			}
		}
		if !dup {
			written = append(written, httpserver.PathLimit{Path: p, Limit: int64(10 + i)})
		}
	}
	SortPathLimits(scopes)
	rl := verifrt.IntRange("rlen", 0, 3)
	rp := "/" + verifrt.String("req", rl)
	for j := 1; j < len(rp); j++ {
		verifrt.Assume(zzIn(rp[j], "a/"))
	}
	httpserver.CaseSensitivePath = true
	next := &zzNextBody{}
	h := Limit{Next: next, BodyLimits: scopes}
	r := &http.Request{Method: "POST", URL: &url.URL{Path: rp}, Body: &zzBody{chunk: []int{0}}}
	h.ServeHTTP(nil, r)
	verifrt.Assert(next.ran == 1, "next-runs")
	// specification: among scopes that match the request path, the longest path wins
	bestLen, bestLimit, any := -1, int64(0), false
	for _, s := range written {
		if httpserver.Path(rp).Matches(s.Path) {
			any = true
			if len(s.Path) > bestLen {
				bestLen, bestLimit = len(s.Path), s.Limit
			}
		}
	}
	verifrt.Assert(next.had == any, "limit-applied-iff-scope-matches")
	if any {
		ambiguous := false
		for _, s := range written {
			if httpserver.Path(rp).Matches(s.Path) && len(s.Path) == bestLen && s.Limit != bestLimit {
				ambiguous = true
			}
		}
		if !ambiguous {
			verifrt.Assert(next.limit == bestLimit, "longest-scope-wins")
		}
	}
	verifrt.Observe("sel", next.had, next.limit)
}

// VerifH17cParseSize: an accepted size is the exact product of number and unit.
func VerifH17cParseSize() {
	unit := []string{"", "B", "KB", "MB", "GB", "kb", "gb"}[verifrt.Choose("unit", 7)]
	var nd int
	if verifrt.Bool("long") {
		nd = verifrt.IntRange("ndigits", 10, 11)
		verifrt.Assume(unit == "GB")
	} else {
		nd = verifrt.IntRange("ndigits", 1, 3)
	}
	digits := verifrt.String("num", nd)
	for i := 0; i < nd; i++ {
		verifrt.Assume(digits[i] >= '0' && digits[i] <= '9')
	}
	got := parseSize(digits + unit)
	num, err := strconv.ParseInt(digits, 10, 64)
	if err != nil {
		verifrt.Fail("harness-parse")
	}
	mult := int64(1)
	switch unit {
	case "KB", "kb":
		mult = 1 << 10
	case "MB":
		mult = 1 << 20
	case "GB", "gb":
		mult = 1 << 30
	}
	if got >= 1 {
		verifrt.Assert(num <= (1<<63-1)/mult && got == num*mult, "size-is-exact-product")
	} else {
		// rejected: only zero, or a product that does not fit int64, may be rejected
		verifrt.Assert(num == 0 || num > (1<<63-1)/mult, "valid-size-accepted")
	}
	verifrt.Observe("size", got >= 1)
}

// zzReadAllNext reads the whole request body as a content handler would and keeps what it got.
type zzReadAllNext struct {
	got []byte
	err error
}

func (n *zzReadAllNext) ServeHTTP(w http.ResponseWriter, r *http.Request) (int, error) {
	n.got, n.err = io.ReadAll(r.Body)
	return 0, nil
}

// VerifH17fThroughTheHandler: the limit as a content handler sees it behind Limit.ServeHTTP, for a
// body of 0..4 bytes whose length is declared (Content-Length) or not (chunked, HTTP/2): the handler
// receives the body unchanged iff it fits the limit; otherwise at most limit bytes and the too-large
// error.
func VerifH17fThroughTheHandler() {
	limit := int64(verifrt.IntRange("limit", 0, 3))
	n := verifrt.IntRange("bodylen", 0, 4)
	body := verifrt.Bytes("body", n)
	next := &zzReadAllNext{}
	h := Limit{Next: next, BodyLimits: []httpserver.PathLimit{{Path: "/", Limit: limit}}}
	r := &http.Request{Method: "POST", URL: &url.URL{Path: "/up"}, Header: http.Header{}, Body: io.NopCloser(bytes.NewReader(body)), ContentLength: int64(n)}
	if verifrt.Bool("length-not-declared") {
		r.ContentLength = -1
		r.TransferEncoding = []string{"chunked"}
	}
	h.ServeHTTP(nil, r)
	if int64(n) <= limit {
		verifrt.Assert(next.err == nil && bytes.Equal(next.got, body), "body-within-the-limit-arrives-unchanged")
	} else {
		verifrt.Assert(next.err == httpserver.ErrMaxBytesExceeded, "body-over-the-limit-is-an-error")
		verifrt.Assert(int64(len(next.got)) <= limit, "never-more-than-the-limit-delivered")
	}
	verifrt.Observe("through", len(next.got), next.err != nil)
}
