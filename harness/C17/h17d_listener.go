//go:build verif

// verif:package caskethttp/httpserver
package httpserver

import (
	"net/http"
	"time"

	"github.com/tmpim/casket/zzverif/verifrt"
)

// VerifH17dStrictestTimeouts: listener-wide timeouts are the minimum of the values the co-hosted
// sites set; defaults apply only where no site sets a value.
func VerifH17dStrictestTimeouts() {
	n := verifrt.IntRange("nsites", 1, 2+verifrt.Tier())
	group := make([]*SiteConfig, n)
	for i := range group {
		c := &SiteConfig{}
		c.Timeouts.ReadTimeoutSet = verifrt.Bool("rset")
		c.Timeouts.ReadTimeout = time.Duration(verifrt.Int64("r"))
		c.Timeouts.ReadHeaderTimeoutSet = verifrt.Bool("hset")
		c.Timeouts.ReadHeaderTimeout = time.Duration(verifrt.Int64("h"))
		c.Timeouts.WriteTimeoutSet = verifrt.Bool("wset")
		c.Timeouts.WriteTimeout = time.Duration(verifrt.Int64("w"))
		c.Timeouts.IdleTimeoutSet = verifrt.Bool("iset")
		c.Timeouts.IdleTimeout = time.Duration(verifrt.Int64("i"))
		group[i] = c
	}
	s := makeHTTPServerWithTimeouts("addr", group)
	check := func(got time.Duration, set func(*SiteConfig) bool, val func(*SiteConfig) time.Duration, def time.Duration, label string) {
		any := false
		for _, c := range group {
			if set(c) {
				any = true
				verifrt.Assert(got <= val(c), label+"-not-above-any-set-value")
			}
		}
		if !any {
			verifrt.Assert(got == def, label+"-default-when-unset")
			return
		}
		is := false
		for _, c := range group {
			is = is || (set(c) && got == val(c))
		}
		verifrt.Assert(is, label+"-is-one-of-the-set-values")
	}
	check(s.ReadTimeout, func(c *SiteConfig) bool { return c.Timeouts.ReadTimeoutSet }, func(c *SiteConfig) time.Duration { return c.Timeouts.ReadTimeout }, defaultTimeouts.ReadTimeout, "read")
	check(s.ReadHeaderTimeout, func(c *SiteConfig) bool { return c.Timeouts.ReadHeaderTimeoutSet }, func(c *SiteConfig) time.Duration { return c.Timeouts.ReadHeaderTimeout }, defaultTimeouts.ReadHeaderTimeout, "header")
	check(s.WriteTimeout, func(c *SiteConfig) bool { return c.Timeouts.WriteTimeoutSet }, func(c *SiteConfig) time.Duration { return c.Timeouts.WriteTimeout }, defaultTimeouts.WriteTimeout, "write")
	check(s.IdleTimeout, func(c *SiteConfig) bool { return c.Timeouts.IdleTimeoutSet }, func(c *SiteConfig) time.Duration { return c.Timeouts.IdleTimeout }, defaultTimeouts.IdleTimeout, "idle")
}

// VerifH17dStrictestHeaderLimit: the shared header-size limit is the smallest configured one.
func VerifH17dStrictestHeaderLimit() {
	n := verifrt.IntRange("nsites", 1, 4)
	group := make([]*SiteConfig, n)
	for i := range group {
		c := &SiteConfig{}
		c.Limits.MaxRequestHeaderSize = verifrt.Int64("limit")
		verifrt.Assume(c.Limits.MaxRequestHeaderSize >= 0) // parseLimits rejects sizes < 1; 0 = unset
		group[i] = c
	}
	s := makeHTTPServerWithHeaderLimit(&http.Server{}, group)
	any := false
	for _, c := range group {
		if l := c.Limits.MaxRequestHeaderSize; l > 0 {
			any = true
			verifrt.Assert(int64(s.MaxHeaderBytes) <= l, "header-limit-not-above-any")
		}
	}
	if !any {
		verifrt.Assert(s.MaxHeaderBytes == 0, "header-limit-default-when-unset")
		return
	}
	is := false
	for _, c := range group {
		is = is || int64(s.MaxHeaderBytes) == c.Limits.MaxRequestHeaderSize
	}
	verifrt.Assert(is, "header-limit-is-a-configured-value")
}
