//go:build verif

// verif:package caskethttp/proxy
package proxy

import (
	"bytes"
	"fmt"
	"io"
	"net"
	"net/http"
	"net/url"

	"github.com/tmpim/casket/caskethttp/httpserver"
	"github.com/tmpim/casket/zzverif/verifrt"
)

// zzLimitedBody yields a few bytes and then the limit error, as the limits directive's reader does.
type zzLimitedBody struct{ left int }

func (b *zzLimitedBody) Read(p []byte) (int, error) {
	if b.left == 0 {
		return 0, httpserver.ErrMaxBytesExceeded
	}
	n := copy(p, bytes.Repeat([]byte("x"), b.left))
	b.left -= n
	return n, nil
}
func (b *zzLimitedBody) Close() error { return nil }

// zzUploadTransport reads the request body like a transport does and reports the read error in one
// of the shapes a transport reports it: as it is, wrapped in a *net.OpError (what net/http's
// transport does when the body fails while it is being copied to the connection), or wrapped with %w.
type zzUploadTransport struct{ shape int }

func (t *zzUploadTransport) RoundTrip(req *http.Request) (*http.Response, error) {
	_, err := io.Copy(io.Discard, req.Body)
	if err == nil {
		return &http.Response{StatusCode: 200, Header: http.Header{}, Body: http.NoBody}, nil
	}
	switch t.shape {
	case 1:
		return nil, &net.OpError{Op: "readfrom", Net: "tcp", Err: err}
	case 2:
		return nil, fmt.Errorf("write request body: %w", err)
	}
	return nil, err
}

type zzW17 struct {
	hdr    http.Header
	status int
}

func (w *zzW17) Header() http.Header {
	if w.hdr == nil {
		w.hdr = http.Header{}
	}
	return w.hdr
}
func (w *zzW17) WriteHeader(c int)            { w.status = c }
func (w *zzW17) Write(p []byte) (int, error) { return len(p), nil }

// VerifH17eTooLargeIs413: a proxied upload that runs over the body limit is answered 413 (not 502),
// however the transport hands the limit error back.
func VerifH17eTooLargeIs413() {
	u := &staticUpstream{from: "/", MaxFails: 1}
	h, err := u.NewHost("http://backend")
	if err != nil {
		verifrt.Fail("newhost")
		return
	}
	h.ReverseProxy.Transport = &zzUploadTransport{shape: verifrt.Choose("error-shape", 3)}
	h.ReverseProxy.FlushInterval = 0
	u.Hosts = HostPool{h}
	p := Proxy{Upstreams: []Upstream{u}}
	r := &http.Request{Method: "POST", URL: &url.URL{Path: "/"}, Header: http.Header{}, Host: "site", RemoteAddr: "1.2.3.4:5", ContentLength: 5,
		Body: &zzLimitedBody{left: verifrt.IntRange("bytes-before-the-limit", 0, 3)}}
	status, _ := p.ServeHTTP(&zzW17{}, r)
	verifrt.Assert(status == http.StatusRequestEntityTooLarge, "too-large-is-413")
}
