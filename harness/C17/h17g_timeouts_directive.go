//go:build verif

// verif:package caskethttp/timeouts
package timeouts

import (
	"time"

	"github.com/tmpim/casket"
	"github.com/tmpim/casket/caskethttp/httpserver"
	"github.com/tmpim/casket/zzverif/verifrt"
)

// VerifH17gTimeoutsDirective: what the `timeouts` directive records for a site is what its lines
// say, line by line: `none` and 0 mean no timeout whatever the lines before it said, a duration
// means that duration, a kind that is not mentioned stays unset; the short form sets all four.
// (H17dStrictestTimeouts then decides what a listener shared by several sites does with them.)
func VerifH17gTimeoutsDirective() {
	kinds := []string{"read", "header", "write", "idle"}
	vals := []string{"none", "0", "10s", "1m"}
	durs := []time.Duration{0, 0, 10 * time.Second, time.Minute}
	want := map[string]time.Duration{}
	set := map[string]bool{}
	text := "timeouts"
	if verifrt.Bool("short-form") {
		v := verifrt.Choose("value", len(vals))
		text += " " + vals[v]
		for _, k := range kinds {
			want[k], set[k] = durs[v], true
		}
	} else {
		text += " {\n"
		n := verifrt.IntRange("lines", 1, 3)
		for i := 0; i < n; i++ {
			k := kinds[verifrt.Choose("kind", len(kinds))]
			v := verifrt.Choose("value", len(vals))
			text += k + " " + vals[v] + "\n"
			want[k], set[k] = durs[v], true
		}
		text += "}"
	}
	c := casket.NewTestController("http", text)
	err := setupTimeouts(c)
	verifrt.Assert(err == nil, "accepted")
	if err != nil {
		return
	}
	t := httpserver.GetConfig(c).Timeouts
	verifrt.Assert(t.ReadTimeout == want["read"] && t.ReadTimeoutSet == set["read"], "read-timeout-as-written")
	verifrt.Assert(t.ReadHeaderTimeout == want["header"] && t.ReadHeaderTimeoutSet == set["header"], "header-timeout-as-written")
	verifrt.Assert(t.WriteTimeout == want["write"] && t.WriteTimeoutSet == set["write"], "write-timeout-as-written")
	verifrt.Assert(t.IdleTimeout == want["idle"] && t.IdleTimeoutSet == set["idle"], "idle-timeout-as-written")
	verifrt.Observe("n", len(set))
}
