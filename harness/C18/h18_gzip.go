//go:build verif

// verif:package caskethttp/gzip
package gzip

import (
	"bytes"
	stdgzip "compress/gzip"
	"io"
	"net/http"
	"net/url"
	"strconv"
	"strings"

	"github.com/tmpim/casket/caskethttp/staticfiles"
	"github.com/tmpim/casket/zzverif/verifrt"
)

// zzClient is the client end. Like net/http it drops bodies of 204/304 responses, takes the header
// as it stands when the status is committed (later changes to the map do not reach the client), and
// refuses body bytes beyond a declared Content-Length.
type zzClient struct {
	hdr    http.Header
	sent   http.Header // snapshot at commit
	status int
	body   []byte
}

func (w *zzClient) commit(c int) {
	w.status = c
	w.sent = http.Header{}
	for k, v := range w.Header() {
		w.sent[k] = append([]string(nil), v...)
	}
}

// Flush commits the header, as net/http's response writer does.
func (w *zzClient) Flush() {
	if w.status == 0 {
		w.commit(200)
	}
}

// Sent is the header the client received.
func (w *zzClient) Sent() http.Header {
	if w.sent == nil {
		return w.Header() // nothing committed yet: net/http commits the header as it stands when the handler returns
	}
	return w.sent
}

func (w *zzClient) Header() http.Header {
	if w.hdr == nil {
		w.hdr = http.Header{}
	}
	return w.hdr
}
func (w *zzClient) WriteHeader(c int) {
	if w.status == 0 {
		w.commit(c)
	}
}
func (w *zzClient) Write(p []byte) (int, error) {
	if w.status == 0 {
		w.commit(200)
	}
	if w.status == 204 || w.status == 304 {
		return 0, http.ErrBodyNotAllowed
	}
	if cl := w.sent.Get("Content-Length"); cl != "" {
		if n, err := strconv.Atoi(cl); err == nil && len(w.body)+len(p) > n {
			room := n - len(w.body)
			if room < 0 {
				room = 0
			}
			w.body = append(w.body, p[:room]...)
			return room, http.ErrContentLength
		}
	}
	w.body = append(w.body, p...)
	return len(p), nil
}

type zzInnerResp struct {
	ctype    string
	clen     int // 0 absent, 1 right, 2 wrong
	cenc     string
	etag     bool
	status   int
	chunks   [][]byte
	explicit bool
	flushes  bool // Flush between the explicit status and the first body byte (event streams, long polls)
	copies   bool // body sent with io.Copy from a plain reader (file server, ServeContent, fastcgi): uses the writer's ReadFrom if it has one
}

func zzDrawInner() zzInnerResp {
	var b zzInnerResp
	k := verifrt.Choose("ctype-etag", 3)
	b.ctype = []string{"", "text/plain", "text/plain"}[k]
	b.clen = verifrt.Choose("clen", 3)
	b.cenc = []string{"", "gzip", "br", "zstd", "deflate", "identity", "GZIP", "x-gzip", "deflate, br"}[verifrt.Choose("cenc", 9)]
	b.etag = k == 2
	b.explicit = verifrt.Bool("explicit")
	b.status = 200
	if b.explicit {
		b.status = []int{200, 204, 304, 404, 206}[verifrt.Choose("status", 5)]
	}
	n := verifrt.IntRange("chunks", 0, 2)
	for i := 0; i < n; i++ {
		b.chunks = append(b.chunks, verifrt.Bytes("chunk", 1+verifrt.Tier()))
	}
	if n > 0 {
		b.copies = verifrt.Bool("body-sent-with-io-copy")
	}
	if n == 1 && !b.copies {
		b.flushes = verifrt.Bool("flush-before-the-body")
	}
	return b
}

type zzInner struct{ b *zzInnerResp }

func (h zzInner) ServeHTTP(w http.ResponseWriter, r *http.Request) (int, error) {
	b := h.b
	total := 0
	for _, c := range b.chunks {
		total += len(c)
	}
	if b.ctype != "" {
		w.Header().Set("Content-Type", b.ctype)
	}
	switch b.clen {
	case 1:
		w.Header().Set("Content-Length", strconv.Itoa(total))
	case 2:
		w.Header().Set("Content-Length", strconv.Itoa(total+7))
	}
	if b.cenc != "" {
		w.Header().Set("Content-Encoding", b.cenc)
	}
	if b.etag {
		w.Header().Set("ETag", `"abc"`)
	}
	if b.explicit {
		w.WriteHeader(b.status)
	}
	if b.flushes {
		// after the explicit status, or before anything else has been written
		if f, ok := w.(http.Flusher); ok {
			f.Flush()
		}
	}
	for _, c := range b.chunks {
		if b.copies {
			io.Copy(w, struct{ io.Reader }{bytes.NewReader(c)})
		} else {
			w.Write(c)
		}
	}
	return 0, nil
}

// zzGunzip undoes the gzip coding: under the engine gzip is the tagging identity model
// (1f 8b '(' payload ')'), natively it is real gzip.
func zzGunzip(body []byte) ([]byte, bool) {
	if verifrt.Symbolic() {
		if len(body) >= 4 && body[0] == 0x1f && body[1] == 0x8b && body[2] == '(' && body[len(body)-1] == ')' {
			return body[3 : len(body)-1], true
		}
		return nil, false
	}
	zr, err := stdgzip.NewReader(bytes.NewReader(body))
	if err != nil {
		return nil, false
	}
	out, err := io.ReadAll(zr)
	if err != nil {
		return nil, false
	}
	return out, true
}

// VerifH18Transparent: enabling gzip never changes the content the client decodes.
func VerifH18Transparent() {
	b := zzDrawInner()
	cfg := Config{RequestFilters: []RequestFilter{DefaultExtFilter()}, ResponseFilters: []ResponseFilter{SkipCompressedFilter{}}}
	minLen := verifrt.Choose("minlength", 3) // 0 none, 1 => 1, 2 => 3
	if minLen == 1 {
		cfg.ResponseFilters = append(cfg.ResponseFilters, LengthFilter(1))
	} else if minLen == 2 {
		cfg.ResponseFilters = append(cfg.ResponseFilters, LengthFilter(3))
	}
	accept := []string{"", "gzip", "zstd", "gzip, zstd", "identity", "identity;q=1, *;q=0", "gzip;q=0, identity"}[verifrt.Choose("accept", 7)]
	path := []string{"/a.txt", "/a.png", "/"}[verifrt.Choose("path", 3)]
	g := Gzip{Next: zzInner{&b}, Configs: []Config{cfg}}
	r := &http.Request{Method: "GET", URL: &url.URL{Path: path}, Header: http.Header{}}
	if accept != "" {
		r.Header.Set("Accept-Encoding", accept)
	}
	w := &zzClient{}
	g.ServeHTTP(w, r)

	// the identity run: the same inner behaviour without the middleware
	ref := &zzClient{}
	zzInner{&b}.ServeHTTP(ref, r)

	verifrt.Assert(w.status == ref.status, "status-unchanged")
	enc := w.Sent().Get("Content-Encoding")
	offered := strings.Contains(accept, "gzip") && !strings.Contains(accept, "gzip;q=0")
	if strings.Contains(accept, "gzip;q=0") {
		verifrt.Tag("gzip-item-with-zero-quality") // the input class of the recorded known finding
	}
	applied := false
	body := w.body
	if enc == "gzip" && b.cenc != "gzip" {
		// the middleware claims to have applied gzip on top of whatever the handler produced
		dec, ok := zzGunzip(w.body)
		if len(w.body) > 0 || len(ref.body) > 0 {
			verifrt.Assert(ok, "gzip-labelled-body-is-gzip")
		}
		if ok {
			body = dec
			applied = true
		} else {
			body = nil
		}
	}
	verifrt.Assert(bytes.Equal(body, ref.body), "decoded-body-equals-identity-body")
	if applied {
		verifrt.Assert(offered, "gzip-only-when-offered")
		// codings actually applied must all be named: the handler's own coding must not be lost
		verifrt.Assert(b.cenc == "" || b.cenc == "identity", "already-encoded-not-encoded-again")
	} else if w.status != 204 && w.status != 304 {
		// (a response without a body carries no coding at all; its headers are not constrained here)
		verifrt.Assert(enc == b.cenc, "content-encoding-unchanged-when-not-applied")
	}
	if cl := w.Sent().Get("Content-Length"); cl != "" {
		if w.status != 204 && w.status != 304 && (b.clen == 1 || applied) {
			verifrt.Assert(cl == strconv.Itoa(len(w.body)), "content-length-absent-or-correct")
		}
	}
	if applied {
		vary := w.Sent()["Vary"]
		n := 0
		for _, v := range vary {
			if v == "Accept-Encoding" {
				n++
			}
		}
		verifrt.Assert(n == 1, "vary-accept-encoding-once")
	}
	verifrt.Observe("gz", w.status, applied, len(body))
}

// VerifH18Negotiation: for every Accept-Encoding list of 1..2 items over {gzip, x-gzip, identity, *,
// zstd} x {no q, q=0, q=0.0 after a blank, q=0.5, q=1}, a client that did not offer gzip (no gzip item
// of non-zero quality and no wildcard of non-zero quality) receives identity-coded data.
func VerifH18Negotiation() {
	codings := []string{"gzip", "x-gzip", "identity", "*", "zstd"}
	quals := []string{"", ";q=0", "; q=0.0", ";q=0.5", ";q=1"}
	n := verifrt.IntRange("items", 1, 2)
	accept := ""
	gzipOffered, gzipRefused, gzipNamed, wildOffered := false, false, false, false
	for i := 0; i < n; i++ {
		c := verifrt.Choose("coding", len(codings))
		q := verifrt.Choose("q", len(quals))
		if i > 0 {
			accept += []string{", ", ","}[verifrt.Choose("sep", 2)]
		}
		accept += codings[c] + quals[q]
		zero := q == 1 || q == 2
		switch {
		case c <= 1:
			gzipNamed = true
			gzipOffered = gzipOffered || !zero
			gzipRefused = gzipRefused || zero
		case c == 3:
			wildOffered = wildOffered || !zero
		}
	}
	offered := gzipOffered || (!gzipNamed && wildOffered)
	if gzipRefused {
		verifrt.Tag("gzip-item-with-zero-quality")
	}
	b := zzInnerResp{ctype: "text/plain", status: 200, chunks: [][]byte{verifrt.Bytes("chunk", 2)}}
	cfg := Config{RequestFilters: []RequestFilter{DefaultExtFilter()}, ResponseFilters: []ResponseFilter{SkipCompressedFilter{}}}
	g := Gzip{Next: zzInner{&b}, Configs: []Config{cfg}}
	r := &http.Request{Method: "GET", URL: &url.URL{Path: "/a.txt"}, Header: http.Header{"Accept-Encoding": []string{accept}}}
	w := &zzClient{}
	g.ServeHTTP(w, r)
	enc := w.Sent().Get("Content-Encoding")
	if !offered {
		verifrt.Assert(enc == "" && bytes.Equal(w.body, b.chunks[0]), "gzip-only-when-offered")
	} else if enc == "gzip" {
		dec, ok := zzGunzip(w.body)
		verifrt.Assert(ok && bytes.Equal(dec, b.chunks[0]), "decoded-body-equals-identity-body")
	} else {
		verifrt.Assert(enc == "" && bytes.Equal(w.body, b.chunks[0]), "identity-body-unchanged")
	}
	verifrt.Observe("neg", enc, offered) // (the coded length differs between the gzip model and real gzip)
}

// VerifH18cStaticSiblings: the gzip middleware in front of the real static file server, which may
// itself answer with a precompressed sibling (a.gz, a.zst): the client receives either the file
// under a coding it offered -- applied exactly once -- or the identity file; a precompressed sibling
// is never compressed again and never sent to a client that did not offer its coding.
//
//	<root>/a.txt "AA"   <root>/a.txt.gz "G" (stands for gzip(AA))   <root>/a.txt.zst "S"
func VerifH18cStaticSiblings() {
	base := verifrt.FSRoot()
	root := base + "/site"
	verifrt.FSPut(root+"/a.txt", []byte("AA"))
	verifrt.FSPut(root+"/a.txt.gz", []byte("G"))
	verifrt.FSPut(root+"/a.txt.zst", []byte("S"))
	verifrt.FSPut(root+"/b.txt", []byte("BB")) // no siblings
	fsrv := staticfiles.FileServer{Root: http.Dir(root)}
	cfg := Config{RequestFilters: []RequestFilter{DefaultExtFilter()}, ResponseFilters: []ResponseFilter{SkipCompressedFilter{}}}
	if verifrt.Bool("min-length") {
		cfg.ResponseFilters = append(cfg.ResponseFilters, LengthFilter(3))
	}
	g := Gzip{Next: fsrv, Configs: []Config{cfg}}
	accept := []string{"", "gzip", "zstd", "zstd, gzip", "gzip, zstd", "br", "identity"}[verifrt.Choose("accept", 7)]
	p := []string{"/a.txt", "/b.txt"}[verifrt.Choose("path", 2)]
	method := []string{"GET", "HEAD"}[verifrt.Choose("method", 2)]
	r := &http.Request{Method: method, URL: &url.URL{Path: p}, Header: http.Header{}, Host: "h"}
	if accept != "" {
		r.Header.Set("Accept-Encoding", accept)
	}
	w := &zzClient{}
	g.ServeHTTP(w, r)
	enc := w.Sent().Get("Content-Encoding")
	want := "AA"
	if p == "/b.txt" {
		want = "BB"
	}
	verifrt.Assert(w.status == 200, "file-served")
	if method == "HEAD" {
		// (net/http discards whatever a handler writes in reply to HEAD)
		verifrt.Observe("sibling", enc)
		return
	}
	switch enc {
	case "":
		verifrt.Assert(string(w.body) == want, "identity-body-is-the-file")
	case "gzip":
		verifrt.Assert(strings.Contains(accept, "gzip"), "coding-was-offered")
		if string(w.body) != "G" || p != "/a.txt" {
			// not the precompressed sibling: the middleware's own coding of the identity file
			dec, ok := zzGunzip(w.body)
			verifrt.Assert(ok && string(dec) == want, "coded-exactly-once")
		}
	case "zstd":
		verifrt.Assert(strings.Contains(accept, "zstd"), "coding-was-offered")
		verifrt.Assert(string(w.body) == "S" && p == "/a.txt", "zstd-sibling-sent-as-is")
	default:
		verifrt.Fail("unknown-coding-label")
	}
	if cl := w.Sent().Get("Content-Length"); cl != "" {
		verifrt.Assert(cl == strconv.Itoa(len(w.body)), "content-length-absent-or-correct")
	}
	verifrt.Observe("sibling", enc)
}
