//go:build verif

// verif:package caskethttp/httpserver
package httpserver

import (
	"crypto/tls"
	"net"

	"github.com/tmpim/casket/zzverif/verifrt"
)

// VerifH19aClientHello: parseRawClientHello is total on arbitrary bytes and what it records is a
// decode of the input.
func VerifH19aClientHello() {
	lo, hi := 38, 52
	if verifrt.Tier() > 0 {
		hi = 62
	}
	n := verifrt.IntRange("len", lo, hi)
	data := verifrt.Bytes("hello", n)
	info := parseRawClientHello(data)
	if n >= 42 {
		verifrt.Assert(info.Version == uint16(data[4])<<8|uint16(data[5]), "version-decoded")
	}
	verifrt.Assert(2*len(info.CipherSuites) <= n, "ciphers-within-input")
	verifrt.Assert(len(info.CompressionMethods) <= n, "compression-within-input")
	verifrt.Assert(4*len(info.Extensions) <= n, "extensions-within-input")
	verifrt.Assert(2*len(info.Curves) <= n && len(info.Points) <= n, "lists-within-input")
	if len(info.CipherSuites) > 0 {
		sid := int(data[38])
		verifrt.Assert(info.CipherSuites[0] == uint16(data[41+sid])<<8|uint16(data[42+sid]), "first-cipher-decoded")
	}
	verifrt.Observe("lens", len(info.CipherSuites), len(info.Extensions), len(info.Curves), len(info.Points))
}

// VerifH19aShort: every input shorter than the fixed part.
func VerifH19aShort() {
	n := verifrt.IntRange("len", 0, 44)
	data := verifrt.Bytes("hello", n)
	info := parseRawClientHello(data)
	verifrt.Assert(2*len(info.CipherSuites) <= n, "ciphers-within-input")
	verifrt.Observe("lens", len(info.CipherSuites), len(info.Extensions))
}

func zzInfo(nExt, nCurves, nCiphers int) rawHelloInfo {
	var info rawHelloInfo
	for i := 0; i < nExt; i++ {
		info.Extensions = append(info.Extensions, verifrt.Uint16("ext"))
	}
	for i := 0; i < nCurves; i++ {
		info.Curves = append(info.Curves, tls.CurveID(verifrt.Uint16("curve")))
	}
	for i := 0; i < nCiphers; i++ {
		info.CipherSuites = append(info.CipherSuites, verifrt.Uint16("cipher"))
	}
	if verifrt.Bool("compression") {
		info.CompressionMethods = []byte{verifrt.Byte("cm")}
	}
	if verifrt.Bool("points") {
		info.Points = []byte{verifrt.Byte("pt")}
	}
	return info
}

// VerifH19bFirefox: the Firefox heuristic is total on any recorded hello.
func VerifH19bFirefox() {
	// the extension check needs the 8 required extensions in order; give it exactly 8 or 9 symbolic ones
	nExt := 8 + verifrt.IntRange("extra-ext", 0, 1)
	info := zzInfo(nExt, verifrt.IntRange("ncurves", 0, 7), verifrt.IntRange("nciphers", 0, 1))
	r := info.looksLikeFirefox()
	verifrt.Observe("firefox", r)
}

// VerifH19bOthers: Chrome, Edge, Safari, Tor heuristics and heartbeat detection are total.
func VerifH19bOthers() {
	which := verifrt.Choose("browser", 5)
	nExt := verifrt.IntRange("next", 0, 3)
	info := zzInfo(nExt, verifrt.IntRange("ncurves", 0, 4), verifrt.IntRange("nciphers", 0, 1))
	var r bool
	switch which {
	case 0:
		r = info.looksLikeChrome()
	case 1:
		r = info.looksLikeEdge()
	case 2:
		r = info.looksLikeSafari()
	case 3:
		r = info.looksLikeTor()
	default:
		r = info.advertisesHeartbeatSupport()
	}
	verifrt.Observe("looks", which, r)
}

// VerifH19bVersion: getVersion is total on User-Agent strings around a browser marker.
func VerifH19bVersion() {
	n := verifrt.IntRange("len", 0, 4)
	tail := verifrt.String("ua", n)
	for i := 0; i < n; i++ {
		c := tail[i]
		verifrt.Assume(c == ' ' || c == '.' || c == '-' || c == '/' || c == 'x')
	}
	pre := ""
	if verifrt.Bool("prefix") {
		pre = "Mozilla "
	}
	v := getVersion(pre+"Firefox/"+tail, "Firefox")
	verifrt.Observe("ver", v >= 0)
	v2 := getVersion(tail+"Firefox", "Firefox")
	verifrt.Observe("ver2", v2 >= 0)
}

type zzOneConnListener struct{ conn net.Conn }

func (l *zzOneConnListener) Accept() (net.Conn, error) { return l.conn, nil }
func (l *zzOneConnListener) Close() error              { return nil }
func (l *zzOneConnListener) Addr() net.Addr            { return zzAddr{} }

type zzAddr struct{}

func (zzAddr) Network() string { return "tcp" }
func (zzAddr) String() string  { return "192.0.2.1:4711" }

// zzSegConn serves a byte stream in caller-chosen segments.
type zzSegConn struct {
	net.Conn
	data []byte
	cuts []int // absolute offsets at which a read must stop
	pos  int
}

func (c *zzSegConn) Read(p []byte) (int, error) {
	end := len(c.data)
	for _, cut := range c.cuts {
		if cut > c.pos && cut < end {
			end = cut
		}
	}
	n := copy(p, c.data[c.pos:end])
	c.pos += n
	return n, nil
}

func (c *zzSegConn) RemoteAddr() net.Addr { return zzAddr{} }

// VerifH19cSegmentation: what is recorded about a ClientHello does not depend on how its bytes
// were split across reads, and the bytes handed on to the TLS layer are unchanged.
func VerifH19cSegmentation() {
	L := verifrt.IntRange("hellolen", 42, 43+2*verifrt.Tier())
	hello := verifrt.Bytes("hello", L)
	stream := append([]byte{22, 3, 1, byte(L >> 8), byte(L)}, hello...)
	total := len(stream)
	cut1 := verifrt.IntRange("cut1", 1, total)
	cut2 := total
	if verifrt.Tier() > 0 {
		cut2 = verifrt.IntRange("cut2", cut1, total)
	}
	under := &zzSegConn{data: stream, cuts: []int{cut1, cut2}}
	// the connection is set up exactly as the server does it: through the listener's Accept
	ln := newTLSListener(&zzOneConnListener{conn: under}, &tls.Config{})
	tc, err := ln.Accept()
	if err != nil {
		verifrt.Fail("accept")
		return
	}
	c := tc.(*tls.Conn).NetConn()
	var passed []byte
	for i := 0; i < 4 && len(passed) < total; i++ {
		b := make([]byte, 128)
		n, err := c.Read(b)
		if err != nil {
			verifrt.Fail("read-error")
		}
		passed = append(passed, b[:n]...)
	}
	verifrt.Assert(len(passed) == total, "all-bytes-passed-on")
	for i := range passed {
		verifrt.Assert(passed[i] == stream[i], "bytes-unchanged")
	}
	want := parseRawClientHello(hello)
	got, ok := ln.helloInfos["192.0.2.1:4711"]
	verifrt.Assert(ok, "hello-recorded")
	verifrt.Assert(got.Version == want.Version, "same-version")
	verifrt.Assert(len(got.CipherSuites) == len(want.CipherSuites) && len(got.Extensions) == len(want.Extensions), "same-lists")
	for i := range want.CipherSuites {
		if i < len(got.CipherSuites) {
			verifrt.Assert(got.CipherSuites[i] == want.CipherSuites[i], "same-ciphers")
		}
	}
	verifrt.Observe("seg", cut1, cut2, ok)
}

type zzAddrOf string

func (zzAddrOf) Network() string  { return "tcp" }
func (a zzAddrOf) String() string { return string(a) }

type zzPeerConn struct {
	zzSegConn
	addr string
}

func (c *zzPeerConn) RemoteAddr() net.Addr { return zzAddrOf(c.addr) }

type zzQueueListener struct {
	conns []net.Conn
	next  int
}

func (l *zzQueueListener) Accept() (net.Conn, error) {
	c := l.conns[l.next]
	l.next++
	return c, nil
}
func (l *zzQueueListener) Close() error   { return nil }
func (l *zzQueueListener) Addr() net.Addr { return zzAddr{} }

// VerifH19cLaterConnections: what was recorded about one peer's ClientHello is not changed by
// the bytes later peers send on other connections of the same listener (the capture buffers are
// pooled and reused).
func VerifH19cLaterConnections() {
	L := 43
	hello := verifrt.Bytes("hello", L)
	mk := func(h []byte, addr string, cut int) *zzPeerConn {
		stream := append([]byte{22, 3, 1, byte(len(h) >> 8), byte(len(h))}, h...)
		return &zzPeerConn{zzSegConn: zzSegConn{data: stream, cuts: []int{cut}}, addr: addr}
	}
	later := verifrt.IntRange("later-connections", 1, 2)
	conns := []net.Conn{mk(hello, "192.0.2.1:1", 5+L)}
	for i := 0; i < later; i++ {
		other := make([]byte, L+i)
		for j := range other {
			other[j] = 0xEE
		}
		conns = append(conns, mk(other, "192.0.2.2:"+string(rune('1'+i)), []int{5 + L + i, 3, 20}[verifrt.Choose("cut", 3)]))
	}
	ln := newTLSListener(&zzQueueListener{conns: conns}, &tls.Config{})
	readAll := func(total int) {
		tc, err := ln.Accept()
		if err != nil {
			verifrt.Fail("accept")
			return
		}
		c := tc.(*tls.Conn).NetConn()
		got := 0
		for i := 0; i < 4 && got < total; i++ {
			b := make([]byte, 128)
			n, err := c.Read(b)
			if err != nil {
				verifrt.Fail("read-error")
			}
			got += n
		}
	}
	readAll(5 + L)
	first, ok := ln.helloInfos["192.0.2.1:1"]
	verifrt.Assert(ok, "hello-recorded")
	for i := 0; i < later; i++ {
		readAll(5 + L + i)
	}
	want := parseRawClientHello(append([]byte(nil), hello...))
	again := ln.helloInfos["192.0.2.1:1"]
	same := func(got rawHelloInfo, label string) {
		verifrt.Assert(got.Version == want.Version, label)
		verifrt.Assert(len(got.CipherSuites) == len(want.CipherSuites) && len(got.Extensions) == len(want.Extensions) &&
			len(got.CompressionMethods) == len(want.CompressionMethods) && len(got.Curves) == len(want.Curves) && len(got.Points) == len(want.Points), label)
		for i := range want.CipherSuites {
			if i < len(got.CipherSuites) {
				verifrt.Assert(got.CipherSuites[i] == want.CipherSuites[i], label)
			}
		}
		for i := range want.CompressionMethods {
			if i < len(got.CompressionMethods) {
				verifrt.Assert(got.CompressionMethods[i] == want.CompressionMethods[i], label)
			}
		}
		for i := range want.Extensions {
			if i < len(got.Extensions) {
				verifrt.Assert(got.Extensions[i] == want.Extensions[i], label)
			}
		}
		for i := range want.Curves {
			if i < len(got.Curves) {
				verifrt.Assert(got.Curves[i] == want.Curves[i], label)
			}
		}
		for i := range want.Points {
			if i < len(got.Points) {
				verifrt.Assert(got.Points[i] == want.Points[i], label)
			}
		}
	}
	same(first, "record-still-what-the-peer-sent")
	same(again, "record-still-what-the-peer-sent")
	verifrt.Observe("later", later)
}
