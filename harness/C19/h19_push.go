//go:build verif

// verif:package caskethttp/push
package push

import "github.com/tmpim/casket/zzverif/verifrt"

func zzAlpha(b byte, alphabet string) bool {
	ok := false
	for i := 0; i < len(alphabet); i++ {
		ok = ok || b == alphabet[i]
	}
	return ok
}

// VerifH19dLinkHeader: a Link header from a backend cannot crash the push middleware.
func VerifH19dLinkHeader() {
	max := 6
	if verifrt.Tier() > 0 {
		max = 7
	}
	n := verifrt.IntRange("len", 0, max)
	h := verifrt.String("link", n)
	for i := 0; i < n; i++ {
		verifrt.Assume(zzAlpha(h[i], "<>;,=a "))
	}
	res := parseLinkHeader(h)
	verifrt.Observe("n", len(res))
}

// VerifH19dLinkHeaderAnyByte: same over all byte values, shorter.
func VerifH19dLinkHeaderAnyByte() {
	n := verifrt.IntRange("len", 0, 3+verifrt.Tier())
	h := verifrt.String("link", n)
	res := parseLinkHeader(h)
	verifrt.Observe("n", len(res))
}

// VerifH19dLinkParams: a well-formed link followed by arbitrary parameter text.
func VerifH19dLinkParams() {
	n := verifrt.IntRange("len", 0, 4+verifrt.Tier())
	tail := verifrt.String("params", n)
	for i := 0; i < n; i++ {
		verifrt.Assume(zzAlpha(tail[i], ";=\"a ,"))
	}
	res := parseLinkHeader("</a.css>" + tail)
	verifrt.Observe("n", len(res))
}
