//go:build verif

// verif:package caskethttp/push
package push

import (
	"net/http"
	"net/url"
	"strings"

	"github.com/tmpim/casket/zzverif/verifrt"
)

func zzAlpha(b byte, alphabet string) bool {
	ok := false
	for i := 0; i < len(alphabet); i++ {
		ok = ok || b == alphabet[i]
	}
	return ok
}

// VerifH19dLinkHeader: a Link header from a backend cannot crash the push middleware.
func VerifH19dLinkHeader() {
	max := 6
	if verifrt.Tier() > 0 {
		max = 7
	}
	n := verifrt.IntRange("len", 0, max)
	h := verifrt.String("link", n)
	for i := 0; i < n; i++ {
		verifrt.Assume(zzAlpha(h[i], "<>;,=a "))
	}
	res := parseLinkHeader(h)
	verifrt.Observe("n", len(res))
}

// VerifH19dLinkHeaderAnyByte: same over all byte values, shorter.
func VerifH19dLinkHeaderAnyByte() {
	n := verifrt.IntRange("len", 0, 3+verifrt.Tier())
	h := verifrt.String("link", n)
	res := parseLinkHeader(h)
	verifrt.Observe("n", len(res))
}

// VerifH19dLinkParams: a well-formed link followed by arbitrary parameter text.
func VerifH19dLinkParams() {
	n := verifrt.IntRange("len", 0, 4+verifrt.Tier())
	tail := verifrt.String("params", n)
	for i := 0; i < n; i++ {
		verifrt.Assume(zzAlpha(tail[i], ";=\"a ,"))
	}
	res := parseLinkHeader("</a.css>" + tail)
	verifrt.Observe("n", len(res))
}

type zz19PushWriter struct {
	hdr    http.Header
	pushed []string
	fail   bool
}

func (w *zz19PushWriter) Header() http.Header {
	if w.hdr == nil {
		w.hdr = http.Header{}
	}
	return w.hdr
}
func (w *zz19PushWriter) Write(p []byte) (int, error) { return len(p), nil }
func (w *zz19PushWriter) WriteHeader(int)             {}
func (w *zz19PushWriter) Push(target string, opts *http.PushOptions) error {
	if w.fail {
		return http.ErrNotSupported
	}
	w.pushed = append(w.pushed, target)
	return nil
}

type zz19Backend struct{ links []string }

func (b zz19Backend) ServeHTTP(w http.ResponseWriter, r *http.Request) (int, error) {
	for _, l := range b.links {
		w.Header().Add("Link", l)
	}
	w.Write([]byte("x"))
	return 0, nil
}

// VerifH19dPushHandler: the push middleware itself (not only the parser) takes any Link header a
// backend sends: arbitrary target bytes between the angle brackets, parameters, several links,
// over an HTTP/2-capable connection whose Push succeeds or fails. A target that is not remote and
// not marked nopush is pushed exactly as written; remote ones never are.
func VerifH19dPushHandler() {
	n := verifrt.IntRange("len", 0, 4+verifrt.Tier())
	target := verifrt.String("target", n)
	for i := 0; i < n; i++ {
		// (arbitrary target bytes in the thorough tier did not finish in 30 minutes: 256-way forks in the
		// middleware's string searches; the parser itself sees arbitrary bytes in H19dLinkHeaderAnyByte)
		verifrt.Assume(zzAlpha(target[i], "/:%[hta"))
		verifrt.Assume(target[i] != '>' && target[i] != ',' && target[i] != ';')
	}
	prefix := []string{"", "/", "http://", "https://", "//", "HTTP://"}[verifrt.Choose("prefix", 6)]
	uri := prefix + target
	tail := []string{"", "; rel=preload", "; nopush", "; rel=preload; nopush", "; as=\"style\""}[verifrt.Choose("params", 5)]
	links := []string{"<" + uri + ">" + tail}
	if verifrt.Bool("second-link") {
		links = append(links, "</b.css>")
	}
	w := &zz19PushWriter{fail: verifrt.Bool("push-fails")}
	r := &http.Request{Method: "GET", URL: &url.URL{Path: "/"}, Header: http.Header{}, Host: "h", RemoteAddr: "1.2.3.4:5", Proto: "HTTP/2.0", RequestURI: "/"}
	if verifrt.Bool("is-pushed-request") {
		r.Header.Set(pushHeader, "1")
	}
	m := Middleware{Next: zz19Backend{links: links}, Root: http.Dir(verifrt.FSRoot())}
	code, err := m.ServeHTTP(w, r)
	verifrt.Assert(code == 0 && err == nil, "backend-result-passed-on")
	remote := strings.HasPrefix(uri, "//") || strings.HasPrefix(uri, "http://") || strings.HasPrefix(uri, "https://")
	nopush := strings.Contains(tail, "nopush")
	_, isPushed := r.Header[pushHeader]
	var want []string
	if !w.fail && !isPushed {
		if !remote && !nopush && strings.TrimSpace(uri) == uri {
			want = append(want, uri)
		}
		if len(links) == 2 {
			want = append(want, "/b.css")
		}
	}
	if strings.TrimSpace(uri) == uri {
		verifrt.Assert(len(w.pushed) == len(want), "pushed-exactly-the-local-links")
		for i := range want {
			if i < len(w.pushed) {
				verifrt.Assert(w.pushed[i] == want[i], "pushed-target-as-written")
			}
		}
	}
	for _, p := range w.pushed {
		verifrt.Assert(!strings.HasPrefix(p, "http://") && !strings.HasPrefix(p, "https://") && !strings.HasPrefix(p, "//"), "remote-target-never-pushed")
	}
	verifrt.Observe("pushed", len(w.pushed))
}
