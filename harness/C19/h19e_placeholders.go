//go:build verif

// verif:package caskethttp/httpserver
package httpserver

import (
	"context"
	"net/http"
	"net/url"
	"strings"

	"github.com/tmpim/casket/zzverif/verifrt"
)

func zz19In(b byte, alphabet string) bool {
	ok := false
	for i := 0; i < len(alphabet); i++ {
		ok = ok || b == alphabet[i]
	}
	return ok
}

func zz19Sym(name string, max int, alphabet string) string {
	n := verifrt.IntRange(name+"len", 0, max)
	s := verifrt.String(name, n)
	for i := 0; i < n; i++ {
		verifrt.Assume(zz19In(s[i], alphabet))
	}
	return s
}

// VerifH19eRequestPlaceholders: the request-derived placeholders are total on whatever a peer
// put into Host, the request path, the query, a header or the Cookie header (RemoteAddr is
// included although net/http writes it), and the simple ones say what the request says.
func VerifH19eRequestPlaceholders() {
	host, remote, p, query, cookie, hval := "example.com:80", "1.2.3.4:5", "/d/f", "a=1", "a=b", "v"
	var phs []string
	kind := verifrt.Choose("field", 6)
	switch kind {
	case 0: // Host header
		host = zz19Sym("host", 4+verifrt.Tier(), "a.:[]1")
		phs = []string{"{host}", "{hostonly}", "{server_port}", "{label1}", "{label2}", "{label3}", "{label0}", "{label}", "{label-1}"}
	case 1: // the label index is part of the configured format, the host is the peer's
		host = zz19Sym("host", 3, "a.")
		d := verifrt.Byte("digit")
		verifrt.Assume(zz19In(d, "0123+-a"))
		phs = []string{"{label" + string([]byte{d}) + "}", "{label1" + string([]byte{d}) + "}"}
	case 2: // remote address
		remote = zz19Sym("remote", 4+verifrt.Tier(), "a.:[]1")
		phs = []string{"{remote}", "{port}"}
	case 3: // request path
		p = "/" + zz19Sym("path", 3+verifrt.Tier(), "/a.% ")
		phs = []string{"{dir}", "{file}", "{rewrite_path}", "{rewrite_path_escaped}", "{rewrite_uri}", "{rewrite_uri_escaped}", "{path}", "{path_escaped}", "{uri}", "{uri_escaped}"}
	case 4: // query string
		query = zz19Sym("query", 4+verifrt.Tier(), "a=&%;+2")
		phs = []string{"{?a}", "{?}", "{query}", "{query_escaped}", "{rewrite_uri}"}
	default: // cookies and headers
		cookie = zz19Sym("cookie", 4+verifrt.Tier(), "a=;\" ,")
		hval = zz19Sym("hval", 2, "a{}")
		phs = []string{"{~a}", "{~}", "{>Cookie}", "{>X-H}", "{>x-h}", "{>}"}
	}
	u := &url.URL{Path: p, RawQuery: query}
	r := &http.Request{Method: "GET", Host: host, RemoteAddr: remote, Proto: "HTTP/1.1", RequestURI: p + "?" + query,
		URL: u, Header: http.Header{"X-H": []string{hval}, "Cookie": []string{cookie}}}
	r = r.WithContext(context.WithValue(r.Context(), OriginalURLCtxKey, *u))
	repl := NewReplacer(r, nil, "-")
	ph := phs[verifrt.Choose("placeholder", len(phs))]
	out := repl.Replace(ph)
	verifrt.Observe("out", out)
	switch ph {
	case "{host}":
		verifrt.Assert(out == host, "host-as-sent")
	case "{hostonly}":
		verifrt.Assert(strings.HasPrefix(host, out) || strings.HasPrefix(host, "["+out), "hostonly-is-part-of-host")
	case "{label1}", "{label2}", "{label3}":
		n := int(ph[6] - '0')
		labels := strings.Split(host, ".")
		want := "-"
		if n <= len(labels) {
			want = labels[n-1]
		}
		verifrt.Assert(out == want, "label-n-is-the-nth-label")
	case "{label0}", "{label}", "{label-1}":
		verifrt.Assert(out == "-", "no-such-label-is-empty")
	case "{rewrite_path}", "{path}":
		verifrt.Assert(out == p, "path-as-sent")
	case "{query}":
		verifrt.Assert(out == query, "query-as-sent")
	case "{>X-H}", "{>x-h}":
		verifrt.Assert(out == hval, "header-value-as-sent")
	case "{>Cookie}":
		verifrt.Assert(out == cookie, "header-value-as-sent")
	}
	if kind == 3 {
		d := repl.Replace("{dir}")
		f := repl.Replace("{file}")
		verifrt.Assert(d+f == p, "dir-plus-file-is-the-path")
	}
}

// VerifH19eIfMatcher: `if` conditions over request text are total and mean what their operator says.
func VerifH19eIfMatcher() {
	ops := []string{"is", "not", "has", "starts_with", "ends_with", "not_is", "not_not", "not_has", "not_starts_with", "not_ends_with"}
	hval := zz19Sym("hval", 3+verifrt.Tier(), "ab{}")
	p := "/" + zz19Sym("path", 2, "ab/")
	r := &http.Request{Method: "GET", Host: "h", RemoteAddr: "1.2.3.4:5", Proto: "HTTP/1.1", RequestURI: p,
		URL: &url.URL{Path: p}, Header: http.Header{"X-H": []string{hval}}}
	r = r.WithContext(context.WithValue(r.Context(), OriginalURLCtxKey, *r.URL))
	n := 1 + verifrt.Choose("conds", 2)
	var m IfMatcher
	m.isOr = verifrt.Bool("or")
	want := !m.isOr
	for i := 0; i < n; i++ {
		a, av, b, op := "{path}", p, "/a", "starts_with"
		if i == 0 || verifrt.Tier() > 0 { // quick tier: the second condition is a fixed one
			if verifrt.Choose("subject", 2) == 0 {
				a, av = "{>X-H}", hval
			}
			b = []string{"a", "ab", "/a", "", "{method}"}[verifrt.Choose("operand", 5)]
			op = ops[verifrt.Choose("op", len(ops))]
		}
		bv := b
		if b == "{method}" {
			bv = "GET"
		}
		c, err := newIfCond(a, op, b)
		verifrt.Assert(err == nil, "operator-accepted")
		m.ifs = append(m.ifs, c)
		var t bool
		switch strings.TrimPrefix(op, "not_") {
		case "is":
			t = av == bv
		case "not":
			t = av != bv
		case "has":
			t = strings.Contains(av, bv)
		case "starts_with":
			t = strings.HasPrefix(av, bv)
		case "ends_with":
			t = strings.HasSuffix(av, bv)
		}
		if strings.HasPrefix(op, "not_") {
			t = !t
		}
		if m.isOr {
			want = want || t
		} else {
			want = want && t
		}
	}
	got := m.Match(r)
	verifrt.Observe("match", got)
	verifrt.Assert(got == want, "condition-means-its-operator")
}
