//go:build verif

// verif:package caskethttp/httpserver
package httpserver

import (
	"net/http"
	"net/url"
	"strings"

	"github.com/tmpim/casket/zzverif/verifrt"
)

func zzIn(b byte, alphabet string) bool {
	ok := false
	for i := 0; i < len(alphabet); i++ {
		ok = ok || b == alphabet[i]
	}
	return ok
}

func zzSymString(name string, max int, alphabet string) string {
	n := verifrt.IntRange(name+"len", 0, max)
	s := verifrt.String(name, n)
	for i := 0; i < n; i++ {
		verifrt.Assume(zzIn(s[i], alphabet))
	}
	return s
}

func zzRequest(hval, query string) *http.Request {
	return &http.Request{Method: "GET", Host: "h", RemoteAddr: "1.2.3.4:5", Proto: "HTTP/1.1", RequestURI: "/p?" + query,
		URL:    &url.URL{Path: "/p", RawQuery: query},
		Header: http.Header{"X-H": []string{hval}}}
}

// VerifH20aTotal: placeholder expansion is total on every format over the placeholder syntax.
func VerifH20aTotal() {
	f := zzSymString("format", 4+verifrt.Tier(), "{}\\><~?$a")
	r := zzRequest("v", "a=1")
	repl := NewReplacer(r, nil, "-")
	out := repl.Replace(f)
	verifrt.Observe("len", len(out))
}

// VerifH20aSinglePass: text taken from the request is inserted verbatim and never expanded
// again, unknown placeholders yield the empty-value marker, escaped braces stay literal.
func VerifH20aSinglePass() {
	lits := []string{"", "a", "\\{", "a\\}", "\\{a\\}"}
	unesc := []string{"", "a", "{", "a}", "{a}"}
	l1 := verifrt.Choose("lit1", len(lits))
	l2 := verifrt.Choose("lit2", len(lits))
	v := zzSymString("value", 3+verifrt.Tier(), "{}\\>apth")
	var ph, want string
	r := zzRequest("v", "")
	switch verifrt.Choose("kind", 4) {
	case 0: // request header
		ph, want = "{>X-H}", v
		r = zzRequest(v, "")
	case 1: // custom placeholder set by another middleware from request data
		ph, want = "{user}", v
	case 2: // unknown placeholder
		ph, want = "{nosuch}", "-"
	default: // method
		ph, want = "{method}", "GET"
	}
	repl := NewReplacer(r, nil, "-")
	repl.Set("user", v)
	got := repl.Replace(lits[l1] + ph + lits[l2])
	verifrt.Assert(got == unesc[l1]+want+unesc[l2], "inserted-verbatim-once")
	// two placeholders in sequence: the second is expanded exactly once as well
	got2 := repl.Replace(ph + lits[l1] + "{method}")
	verifrt.Assert(got2 == want+unesc[l1]+"GET", "second-placeholder-expanded")
	verifrt.Observe("out", got)
}

// VerifH20aHeaderValueWithBraces: an attacker-chosen header value spelling a placeholder.
func VerifH20aQueryPlaceholder() {
	v := zzSymString("qv", 3, "{}\\pa")
	// query values reach the replacer through url parsing; keep the value free of '&', '%', '+' and ';'
	r := zzRequest("x", "k="+v)
	repl := NewReplacer(r, nil, "-")
	got := repl.Replace("<{?k}>")
	verifrt.Assert(got == "<"+v+">", "query-value-verbatim")
	verifrt.Assert(!strings.Contains(got, "GET"), "no-reexpansion")
}
