//go:build verif

// verif:package caskethttp/log
package log

import (
	"bytes"
	"errors"
	"io"
	golog "log"
	"net/http"
	"net/url"
	"strconv"

	"github.com/tmpim/casket/caskethttp/httpserver"
	"github.com/tmpim/casket/zzverif/verifrt"
)

// zzClient is the client side: it enforces net/http's rule that the first status wins.
type zzClient struct {
	hdr     http.Header
	status  int
	body    []byte
	commits int
}

func (w *zzClient) Header() http.Header {
	if w.hdr == nil {
		w.hdr = http.Header{}
	}
	return w.hdr
}
func (w *zzClient) WriteHeader(c int) {
	if c >= 100 && c < 200 && c != 101 {
		return // an informational header (103 Early Hints): the final status is still to come
	}
	w.commits++
	if w.status == 0 {
		w.status = c
	}
}
func (w *zzClient) Write(p []byte) (int, error) {
	if w.status == 0 {
		w.WriteHeader(200)
	}
	w.body = append(w.body, p...)
	return len(p), nil
}

type zzSink struct{ lines []string }

func (s *zzSink) Write(p []byte) (int, error) {
	s.lines = append(s.lines, string(p))
	return len(p), nil
}

// zzInner is the innermost handler with nondeterministic behaviour.
type zzInner struct{}

func (zzInner) ServeHTTP(w http.ResponseWriter, r *http.Request) (int, error) {
	if verifrt.Bool("rewrites-path") {
		// an inner rewrite directive changes the path the rest of the chain sees; scope and
		// exceptions of the log directive are about the path the client requested
		r.URL.Path = []string{"/a/a", "/zz"}[verifrt.Choose("rewritten", 2)]
	}
	if verifrt.Bool("writes") {
		if verifrt.Bool("early-hints") {
			w.WriteHeader(103) // informational, before the final status (explicit or implied by the first write)
		}
		if verifrt.Bool("explicit-status") {
			w.WriteHeader([]int{200, 204, 404, 500}[verifrt.Choose("status", 4)])
		}
		n := verifrt.IntRange("chunks", 0, 2)
		// the body may be sent with io.Copy from a plain reader, as the file server, fastcgi and proxy
		// do: that uses the response writer's ReadFrom if it has one
		copies := n > 0 && verifrt.Bool("body-sent-with-io-copy")
		for i := 0; i < n; i++ {
			chunk := verifrt.Bytes("chunk", verifrt.IntRange("chunklen", 0, 2))
			if copies {
				io.Copy(w, struct{ io.Reader }{bytes.NewReader(chunk)})
			} else {
				w.Write(chunk)
			}
		}
		if verifrt.Bool("error-after-writing") {
			// the response is out; the error is for the log of the errors directive only
			return 0, errors.New("inner error after writing")
		}
		return 0, nil
	}
	code := []int{0, 200, 404, 500}[verifrt.Choose("ret", 4)]
	if verifrt.Bool("err") {
		return code, errors.New("inner error")
	}
	return code, nil
}

func zzIn(b byte, alphabet string) bool {
	ok := false
	for i := 0; i < len(alphabet); i++ {
		ok = ok || b == alphabet[i]
	}
	return ok
}

// VerifH20bOneLine: a request in scope and not excepted produces exactly one line per configured
// log whose {status} and {size} are what the client received; out of scope, none.
func VerifH20bOneLine() {
	httpserver.CaseSensitivePath = true
	pn := verifrt.IntRange("plen", 0, 2+verifrt.Tier())
	p := "/" + verifrt.String("p", pn)
	for i := 1; i < len(p); i++ {
		verifrt.Assume(zzIn(p[i], "a/"))
	}
	scope := []string{"/", "/a"}[verifrt.Choose("scope", 2)]
	var except []string
	if verifrt.Bool("except") {
		except = []string{"/a/a"}
	}
	nEntries := verifrt.IntRange("entries", 1, 2)
	sinks := make([]*zzSink, nEntries)
	var entries []*Entry
	for i := range sinks {
		sinks[i] = &zzSink{}
		lg := httpserver.NewTestLogger(nil)
		lg.Logger = golog.New(sinks[i], "", 0)
		lg.Exceptions = except
		entries = append(entries, &Entry{Format: "{status} {size} {>X-T}", Log: lg})
	}
	l := Logger{Next: zzInner{}, Rules: []*Rule{{PathScope: scope, Entries: entries}}}
	client := &zzClient{}
	// request text that ends up in the line: inserted verbatim, whatever it looks like
	tn := verifrt.IntRange("hlen", 0, 1+verifrt.Tier())
	ht := verifrt.String("h", tn)
	for i := 0; i < tn; i++ {
		verifrt.Assume(zzIn(ht[i], "%da"))
	}
	r := &http.Request{Method: "GET", URL: &url.URL{Path: p}, Host: "h", RemoteAddr: "1.2.3.4:5", Header: http.Header{"X-T": []string{ht}}}
	status, _ := l.ServeHTTP(client, r)

	inScope := httpserver.Path(p).Matches(scope)
	excepted := false
	for _, e := range except {
		excepted = excepted || httpserver.Path(p).Matches(e)
	}
	for _, s := range sinks {
		if !inScope || excepted {
			verifrt.Assert(len(s.lines) == 0, "no-line-out-of-scope")
			continue
		}
		verifrt.Observe("nlines", len(s.lines))
		verifrt.Assert(len(s.lines) == 1, "exactly-one-line")
		if len(s.lines) == 1 {
			seen := client.status
			if seen == 0 {
				seen = 200 // nothing written: net/http answers 200 with an empty body
			}
			logged := ht // (a header that is present with an empty value is logged as the empty string)
			want := strconv.Itoa(seen) + " " + strconv.Itoa(len(client.body)) + " " + logged + "\n"
			verifrt.Assert(s.lines[0] == want, "status-size-as-sent-request-text-verbatim")
		}
	}
	if inScope {
		verifrt.Assert(status == 0 || status < 400, "error-status-consumed")
	}
	verifrt.Assert(client.commits <= 1, "header-committed-once")
	verifrt.Observe("log", status, client.status, len(client.body))
}
