//go:build verif

// verif:package caskethttp/log
package log

import (
	"strings"

	"github.com/tmpim/casket"
	"github.com/tmpim/casket/casketfile"
	"github.com/tmpim/casket/zzverif/verifrt"
)

// VerifH20cConfiguredExceptions: the log rules as the real parser (logParse) builds them from
// Casketfile text with two or three log directives, each with or without its own `except` list, in
// either order: every log is exempt from exactly the paths its own directive lists -- a request in a
// directive's scope and not on that directive's list is logged there.
func VerifH20cConfiguredExceptions() {
	type dir struct {
		scope, file string
		except      []string
	}
	all := []dir{{"/admin", "admin.log", []string{"/admin/ping"}}, {"/", "all.log", []string{"/s", "/t"}}, {"/api", "api.log", []string{"/api/x"}}}
	n := verifrt.IntRange("directives", 2, 3)
	first := verifrt.Choose("first", 3)
	var used []dir
	text := ""
	for i := 0; i < n; i++ {
		d := all[(first+i)%3]
		if !verifrt.Bool("has-except") {
			d.except = nil
		}
		used = append(used, d)
		text += "log " + d.scope + " " + d.file
		if len(d.except) > 0 {
			text += " {\n\texcept " + strings.Join(d.except, " ") + "\n}"
		}
		text += "\n"
	}
	c := casket.NewTestController("http", "")
	c.Dispenser = casketfile.NewDispenser("Casketfile", strings.NewReader(text))
	rules, err := logParse(c)
	if err != nil {
		verifrt.Fail("configuration-accepted")
		return
	}
	for _, d := range used {
		var entry *Entry
		for _, r := range rules {
			if r.PathScope == d.scope {
				for _, e := range r.Entries {
					if e.Log.Output == d.file {
						entry = e
					}
				}
			}
		}
		verifrt.Assert(entry != nil, "one-log-per-directive")
		if entry == nil {
			continue
		}
		for _, p := range []string{"/admin/ping", "/s", "/t/1", "/api/x", "/admin/other", "/api/y", "/u"} {
			if !strings.HasPrefix(p, d.scope) {
				continue
			}
			excepted := false
			for _, e := range d.except {
				excepted = excepted || strings.HasPrefix(p, e)
			}
			verifrt.Assert(entry.Log.ShouldLog(p) == !excepted, "logged-unless-on-this-directives-own-except-list")
		}
	}
	verifrt.Observe("rules", len(rules))
}
