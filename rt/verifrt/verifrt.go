//go:build verif

// Package verifrt is the harness runtime. Under the symbolic engine every function here is an
// intrinsic (the bodies below are never interpreted); compiled natively it replays one vector of
// nondeterministic values against the real build.
package verifrt

import (
	"fmt"
	"os"
	"runtime"
	"runtime/debug"
	"strings"
	"time"
)

type Event struct {
	Name  string `json:"Name"`
	W     uint8  `json:"W"`
	Value uint64 `json:"Value"`
}

type Vector struct {
	Confirm bool    `json:"confirm"` // true when replaying a counterexample (not a sampled witness)
	ID      string  `json:"id"`
	Harness string  `json:"harness"`
	Tier    int     `json:"tier"`
	Events  []Event `json:"events"`
}

type Result struct {
	ID       string   `json:"id"`
	Harness  string   `json:"harness"`
	Outcome  string   `json:"outcome"` // ok | assert:<label> | panic:<msg> | assume | timeout | vector:<problem>
	Observed []string `json:"observed"`
	Detail   string   `json:"detail,omitempty"`
}

type state struct {
	vec      *Vector
	pos      int
	observed []string
	failed   string
}

var cur *state

type assumeFailed struct{}
type assertFailed struct{ label string }
type vectorProblem struct{ msg string }

func next(name string) uint64 {
	s := cur
	if s == nil {
		panic(vectorProblem{"verifrt used outside replay"})
	}
	if s.pos >= len(s.vec.Events) {
		// values not constrained by the path: zero
		s.pos++
		return 0
	}
	e := s.vec.Events[s.pos]
	if e.Name != name {
		panic(vectorProblem{fmt.Sprintf("event %d: vector has %q, harness asked for %q", s.pos, e.Name, name)})
	}
	s.pos++
	return e.Value
}

func Bool(name string) bool     { return next(name)&1 == 1 }
func Byte(name string) byte     { return byte(next(name)) }
func Uint16(name string) uint16 { return uint16(next(name)) }
func Uint32(name string) uint32 { return uint32(next(name)) }
func Int32(name string) int32   { return int32(next(name)) }
func Uint64(name string) uint64 { return next(name) }
func Int64(name string) int64   { return int64(next(name)) }
func Int(name string) int       { return int(next(name)) }

// Choose returns a forked selector in [0,n).
func Choose(name string, n int) int {
	v := int(next(name))
	if v < 0 || v >= n {
		panic(vectorProblem{fmt.Sprintf("choose %q out of range: %d not in [0,%d)", name, v, n)})
	}
	return v
}

// IntRange returns a forked (shape) integer in [lo,hi].
func IntRange(name string, lo, hi int) int {
	v := int(next(name))
	if v < 0 || v > hi-lo {
		panic(vectorProblem{fmt.Sprintf("intrange %q out of range", name)})
	}
	return lo + v
}

func Bytes(name string, n int) []byte {
	b := make([]byte, n)
	for i := range b {
		b[i] = byte(next(fmt.Sprintf("%s[%d]", name, i)))
	}
	return b
}

func String(name string, n int) string { return string(Bytes(name, n)) }

// DictString returns a string literal occurring in the (current) code of package pkg, or "",
// followed by 0..extra arbitrary bytes. Symbolically every dictionary entry and every suffix is
// explored; natively the vector carries the chosen bytes.
func DictString(name, pkg string, extra int) string {
	n := int(next(name + ".len"))
	if n < 0 || n > 64 {
		panic(vectorProblem{fmt.Sprintf("dictstring %q length out of range", name)})
	}
	return string(Bytes(name, n))
}

func Assume(c bool) {
	if !c {
		panic(assumeFailed{})
	}
}

func Assert(c bool, label string) {
	if !c {
		panic(assertFailed{label})
	}
}

func Fail(label string) { panic(assertFailed{label}) }

// Tag marks the current input as belonging to a named class. A violation carries the tags attached
// before it; known_findings.json entries name the tag of the input class they describe, so a
// violation of the same assertion on any other input is still reported.
func Tag(class string) {}

func fmtVal(v any) string {
	switch x := v.(type) {
	case nil:
		return "nil"
	case bool:
		return fmt.Sprint(x)
	case int, int8, int16, int32, int64, uint, uint8, uint16, uint32, uint64, uintptr:
		return fmt.Sprint(x)
	case string:
		return fmt.Sprintf("%q", x)
	case []byte:
		return fmt.Sprintf("%x", x)
	case error:
		return "err"
	}
	return fmt.Sprintf("?%T", v)
}

func Observe(label string, v ...any) {
	parts := make([]string, len(v))
	for i, x := range v {
		parts[i] = fmtVal(x)
	}
	cur.observed = append(cur.observed, label+":"+strings.Join(parts, ","))
}

// Symbolic reports whether the harness runs under the symbolic engine.
func Symbolic() bool { return false }

// Confirming reports whether the current native run replays a counterexample; harnesses that
// invert a summary by search (e.g. find a key with a given hash) may spend more effort then.
func Confirming() bool { return cur != nil && cur.vec.Confirm }

// Tier is 0 for the quick tier and 1 for the thorough tier.
func Tier() int {
	if cur != nil {
		return cur.vec.Tier
	}
	return 0
}

// Terminates declares that exhausting the instruction budget is a violation (label "terminates").
func Terminates() {}

// TolerateUnsupported: paths that reach code outside the engine's reach are reported as not covered
// instead of making the check inconclusive.
func TolerateUnsupported() {}

// Budget sets the per-path instruction budget (engine only).
func Budget(n int) {}

func MapOrderAny() {}

// Concurrent enables the exploration of goroutine interleavings with the given preemption bound
// (engine only; natively goroutines simply run). Without it goroutines started by the code under
// test are parked and never run.
func Concurrent(preemptionBound int) {}

// DrainGoroutines lets the goroutines started so far run until they block (engine); natively it
// gives them 30ms.
func DrainGoroutines() { time.Sleep(30 * time.Millisecond) }

// Yield is a scheduling point (engine) / runtime.Gosched (native).
func Yield() { runtime.Gosched() }

// AdvanceTime lets virtual time pass (engine); natively it sleeps for min(d, 50ms).
func AdvanceTime(d time.Duration) {
	if d > 50*time.Millisecond {
		d = 50 * time.Millisecond
	}
	time.Sleep(d)
}

// Stub redirects calls of the named function to repl under the engine only.
func Stub(fullName string, repl any) {}

var fsRoot string

// FSRoot is the directory under which FSPut places files ("/srv" under the engine).
func FSRoot() string {
	if fsRoot == "" {
		d, err := os.MkdirTemp("", "verif-fs-")
		if err != nil {
			panic(err)
		}
		fsRoot = d
	}
	return fsRoot
}

// FSPut creates a file; relative names are below FSRoot().
func FSPut(name string, data []byte) {
	if !strings.HasPrefix(name, "/") {
		name = FSRoot() + "/" + name
	}
	if i := strings.LastIndex(name, "/"); i > 0 {
		os.MkdirAll(name[:i], 0o755)
	}
	if err := os.WriteFile(name, data, 0o644); err != nil {
		panic(err)
	}
}

// FSSymlink creates a symbolic link name -> target (absolute paths).
func FSSymlink(name, target string) {
	if i := strings.LastIndex(name, "/"); i > 0 {
		os.MkdirAll(name[:i], 0o755)
	}
	os.Remove(name)
	if err := os.Symlink(target, name); err != nil {
		panic(err)
	}
}

// Env sets an environment variable for the code under test.
func Env(k, v string) { os.Setenv(k, v) }

// RunOne replays one vector against harness f (called from the generated TestVerifReplay).
func RunOne(vec *Vector, f func()) (res Result) {
	res.ID, res.Harness = vec.ID, vec.Harness
	done := make(chan Result, 1)
	go func() {
		st := &state{vec: vec}
		cur = st
		r := Result{ID: vec.ID, Harness: vec.Harness, Outcome: "ok"}
		defer func() {
			if p := recover(); p != nil {
				switch p := p.(type) {
				case assumeFailed:
					r.Outcome = "assume"
				case assertFailed:
					r.Outcome = "assert:" + p.label
				case vectorProblem:
					r.Outcome = "vector:" + p.msg
				default:
					r.Outcome = "panic:" + fmt.Sprint(p)
					r.Detail = string(debug.Stack())
				}
			}
			r.Observed = st.observed
			done <- r
		}()
		f()
	}()
	// wall-clock guard: 10 s for sampled witnesses; 30 s when a counterexample is being confirmed (some
	// harnesses then search a concrete input natively, which is slow on a loaded machine)
	guard := 10 * time.Second
	if vec.Confirm {
		guard = 30 * time.Second
	}
	select {
	case r := <-done:
		return r
	case <-time.After(guard):
		res.Outcome = "timeout"
		return res
	}
}

