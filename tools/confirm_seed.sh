#!/bin/bash
# confirm_seed.sh <PROP> <seeddir> <name>: independently confirm a seeded change in a scratch worktree,
# store it under /verif/seeded/<name>/, then run the property's quick check against /repo with the patch applied.
set -u
PROP=$1; SD=$2; NAME=$3
export GOFLAGS=-mod=mod GOPROXY=off GOSUMDB=off GOTOOLCHAIN=local
WT=/tmp/wtc/$NAME
rm -rf $WT; mkdir -p /tmp/wtc
git -C /repo worktree add -q --detach $WT HEAD || exit 3
# the demo is an in-package test: find the directory of the package it declares
PKGNAME=$(grep -m1 '^package ' $SD/demo_test.go | awk '{print $2}')
PKG=$(cd /repo && grep -rl --include='*.go' "^package $PKGNAME\$" . | grep -v _test.go | xargs -n1 dirname | sort -u | sed 's#^\./##' | head -1)
[ -z "$PKG" ] && PKG=.
OUT=/verif/seeded/$NAME; mkdir -p $OUT
cp $SD/patch.diff $SD/demo_test.go $OUT/; [ -f $SD/notes.md ] && cp $SD/notes.md $OUT/
cd $WT
R_APPLY=fail; R_BUILD=fail; R_SUITE=fail; R_DEMO_WITH=unknown; R_DEMO_WITHOUT=unknown
cp $SD/demo_test.go $WT/$PKG/zz_seed_demo_test.go
if go test -vet=off -count=1 -run 'Seed|Demo' ./$PKG/ > $OUT/demo_without.log 2>&1; then R_DEMO_WITHOUT=pass; else R_DEMO_WITHOUT=fail; fi
rm -f $WT/$PKG/zz_seed_demo_test.go
if git apply $SD/patch.diff; then R_APPLY=ok; fi
if go build ./... > $OUT/build.log 2>&1; then R_BUILD=ok; fi
if go test -vet=off -count=1 ./... > $OUT/suite_with.log 2>&1; then R_SUITE=pass; else
  # timing-sensitive repo tests can flake while other checks load the machine: re-run only the failing packages once
  FP=$(grep '^FAIL\s' $OUT/suite_with.log | awk '{print $2}' | sed "s#github.com/tmpim/casket#.#" | sort -u | tr '\n' ' ')
  if [ -n "$FP" ] && go test -vet=off -count=1 $FP > $OUT/suite_with_retry.log 2>&1; then R_SUITE="pass (first run failed in $FP under load; passed when re-run)"; fi
fi
cp $SD/demo_test.go $WT/$PKG/zz_seed_demo_test.go
if go test -vet=off -count=1 -run 'Seed|Demo' ./$PKG/ > $OUT/demo_with.log 2>&1; then R_DEMO_WITH=pass; else R_DEMO_WITH=fail; fi
rm -f $WT/$PKG/zz_seed_demo_test.go
# run the property's quick check against the patched scratch worktree (VERIF_REPO), leaving /repo alone
cd /verif && VERIF_REPO=$WT timeout 1500 ./bin/verif check $PROP --evidence-dir $OUT > $OUT/check_with.log 2>&1; RC=$?
cd /; git -C /repo worktree remove --force $WT
DET=$(grep -c '^VIOLATION' $OUT/check_with.log)
python3 /verif/tools/seed_meta.py "$PROP" "$NAME" "$PKG" "$R_APPLY" "$R_BUILD" "$R_SUITE" "$R_DEMO_WITHOUT" "$R_DEMO_WITH" "$RC" "$DET"
echo "$NAME: apply=$R_APPLY build=$R_BUILD suite=$R_SUITE demo_without=$R_DEMO_WITHOUT demo_with=$R_DEMO_WITH check_exit=$RC violations=$DET"
grep '^VIOLATION\|harness=' $OUT/check_with.log | head -4 | cut -c1-200
