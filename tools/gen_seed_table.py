#!/usr/bin/env python3
"""Regenerate the seeded-change table in DESIGN.md (between the SEED-TABLE markers) from seeded/*/meta.json (first confirmation
run) and seeded/*/recheck.json (the final sweep against the committed checks)."""
import glob, json, os, re
rows = []
first_miss = set(json.load(open('/verif/seeded/FIRST_RUN.json'))['missed_in_first_run'])
for f in sorted(glob.glob('/verif/seeded/*/meta.json')):
    m = json.load(open(f))
    d = os.path.dirname(f)
    rc = json.load(open(d + '/recheck.json')) if os.path.exists(d + '/recheck.json') else None
    need = re.sub(r'\s+', ' ', m.get('needs_to_manifest', ''))[:140].replace('|', '\\|')
    first = 'yes' if m['check_exit'] == 1 else ('inconclusive' if m['check_exit'] == 2 else 'no')
    if m['name'] in first_miss:
        first = 'no'
    if rc:
        now = 'yes' if rc['check_exit'] == 1 else ('inconclusive' if rc['check_exit'] == 2 else 'NO')
        by = '; '.join(sorted({re.sub(r'harness=Verif(\S+) label=(\S+)', r'\1: \2', x) for x in rc['caught_by']}))[:150]
    else:
        now = '?'
        by = '; '.join(sorted({c['harness'].replace('Verif', '') + ': ' + c['label'] for c in m.get('caught_by', [])}))[:150]
    rows.append(f"| {m['name']} | {need}… | {first} | {now} | {by or '—'} |")
hdr = "| seed | needs, in order to manifest | caught when first run | caught by the committed checks | by (harness: label) |\n|---|---|---|---|---|\n"
table = "<!-- SEED-TABLE-BEGIN -->\n" + hdr + "\n".join(rows) + "\n<!-- SEED-TABLE-END -->"
p = '/verif/DESIGN.md'
s = open(p).read()
if '<!-- SEED-TABLE-BEGIN -->' in s:
    s = re.sub(r'<!-- SEED-TABLE-BEGIN -->.*?<!-- SEED-TABLE-END -->', lambda _: table, s, flags=re.S)
else:
    i = s.index('| seed | needs, in order to manifest | caught | by (harness: label) |')
    j = s.index('\n\n', i)
    s = s[:i] + table + s[j:]
open(p, 'w').write(s)
n = len(rows)
first = sum(1 for r in rows if '| yes |' in r.split('…')[1][:8])
print(n, 'seeds')
