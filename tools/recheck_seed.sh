#!/bin/bash
# recheck_seed.sh <name> [--harness X]: apply /verif/seeded/<name>/patch.diff to a scratch worktree of /repo's HEAD and run
# the property's quick check against it (no test suite). Prints the verdict; with RECORD=1 stores it in seeded/<name>/recheck.json.
set -u
NAME=$1; shift
export GOFLAGS=-mod=mod GOPROXY=off GOSUMDB=off GOTOOLCHAIN=local
SD=/verif/seeded/$NAME
PROP=$(python3 -c "import json;print(json.load(open('$SD/meta.json'))['property'])")
WT=/tmp/wtc/re-$NAME
rm -rf $WT; mkdir -p /tmp/wtc
git -C /repo worktree add -q --detach $WT HEAD || exit 3
if ! git -C $WT apply $SD/patch.diff; then echo "$NAME: patch does not apply to HEAD"; git -C /repo worktree remove --force $WT; exit 4; fi
EV=/tmp/wtc/ev-$NAME; rm -rf $EV
cd /verif && VERIF_REPO=$WT timeout 2400 ./bin/verif check $PROP --evidence-dir $EV "$@" > $EV.log 2>&1; RC=$?
git -C /repo worktree remove --force $WT
LABELS=$(grep -o 'harness=[^ ]* label=[^ ]*' $EV.log | sort -u | tr '\n' ';')
echo "$NAME: check_exit=$RC violations=$(grep -c '^VIOLATION' $EV.log) $LABELS"
grep -E "^INCONCLUSIVE|problem:" $EV.log | head -3 | cut -c1-300
if [ "${RECORD:-0}" = 1 ]; then
  python3 - "$NAME" "$RC" "$LABELS" <<'PY'
import json,sys,subprocess
name,rc,labels=sys.argv[1],int(sys.argv[2]),sys.argv[3]
head=subprocess.check_output(['git','-C','/repo','log','--format=%h','-1']).decode().strip()
vh=subprocess.check_output(['git','-C','/verif','log','--format=%h','-1']).decode().strip()
json.dump({"name":name,"repo_head":head,"verif_head":vh,"check_exit":rc,"caught_by":[x for x in labels.split(';') if x]},open(f'/verif/seeded/{name}/recheck.json','w'),indent=1)
PY
fi
rm -rf $EV $EV.log
