#!/usr/bin/env python3
"""Rewrite every /verif/seeded/*/meta.json in the current format from the logs and the previous meta.json."""
import glob, json, os, subprocess
for d in sorted(glob.glob('/verif/seeded/*/')):
    name = d.rstrip('/').split('/')[-1]
    mp = d + 'meta.json'
    if not os.path.exists(mp):
        continue
    m = json.load(open(mp))
    c = m.get('confirmed', {})
    subprocess.check_call(['python3', '/verif/tools/seed_meta.py', m['property'], name, m.get('demo_package', '.'),
                           c.get('patch_applies', '?'), c.get('builds', '?'), c.get('full_suite_with_patch', '?'),
                           c.get('demo_without_patch', '?'), c.get('demo_with_patch', '?'),
                           str(m.get('check_exit', -1)), str(m.get('violations_reported', 0))])
