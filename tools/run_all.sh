#!/bin/bash
# run_all.sh <quick|thorough> [timeout-seconds]: every claimed property's check in turn, one summary line each.
TIER=${1:-quick}; TO=${2:-3600}
cd /verif
for p in C16 C08 C09 C13 C12 C04 C20 C17 C14 C06 C15 C03 C18 C02 C05 C10 C19 C01 C11; do
  s=$(date +%s); timeout $TO ./bin/verif check $p --tier $TIER > /tmp/run_${TIER}_$p.log 2>&1; rc=$?; e=$(date +%s)
  echo "$p exit=$rc secs=$((e-s)) viol=$(grep -c '^VIOLATION' /tmp/run_${TIER}_$p.log) known=$(grep -c '^KNOWN-FINDING' /tmp/run_${TIER}_$p.log) $(grep -E '^(OK|INCONCLUSIVE)' /tmp/run_${TIER}_$p.log | tail -1 | cut -c1-160)"
done
