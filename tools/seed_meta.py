#!/usr/bin/env python3
"""Write /verif/seeded/<name>/meta.json: which property, what the change needs in order to manifest (taken from the
seed author's notes.md), what was run to confirm it and what the property's check reported."""
import json, re, sys, os

def needs(notes):
    if not os.path.exists(notes):
        return ""
    s = open(notes).read()
    m = re.search(r'^#+\s*(?:What it needs[^\n]*|Needs in order to manifest[^\n]*|Trigger[^\n]*)\n(.*?)(?=^#+\s|\Z)', s, re.S | re.M | re.I)
    return re.sub(r'\s+', ' ', m.group(1)).strip() if m else ""

def summary(notes):
    if not os.path.exists(notes):
        return ""
    s = open(notes).read()
    m = re.search(r'^#+\s*(?:Change|The change|What (?:was|is) changed)[^\n]*\n(.*?)(?=^#+\s|\Z)', s, re.S | re.M | re.I)
    t = re.sub(r'\s+', ' ', m.group(1)).strip() if m else ""
    return t[:1200]

def main():
    prop, name, pkg, ap, bu, su, dwo, dw, rc, det = sys.argv[1:11]
    out = f"/verif/seeded/{name}"
    caught = []
    log = os.path.join(out, "check_with.log")
    if os.path.exists(log):
        for l in open(log):
            m = re.search(r'harness=(\S+) label=(\S+)', l)
            if m and (m.group(1), m.group(2)) not in caught:
                caught.append((m.group(1), m.group(2)))
    meta = {
        "property": prop, "name": name, "demo_package": pkg,
        "change": summary(os.path.join(out, "notes.md")),
        "needs_to_manifest": needs(os.path.join(out, "notes.md")),
        "confirmed": {"patch_applies": ap, "builds": bu, "full_suite_with_patch": su,
                      "demo_without_patch": dwo, "demo_with_patch": dw},
        "ran": ["go build ./... (with patch)", "go test -vet=off -count=1 ./... (with patch)",
                f"go test -run 'Seed|Demo' ./{pkg}/ (with and without patch)",
                f"VERIF_REPO=<patched scratch worktree> ./bin/verif check {prop}"],
        "check_exit": int(rc), "violations_reported": int(det),
        "caught_by": [{"harness": h, "label": l} for h, l in caught],
    }
    extra = os.path.join(out, "meta_extra.json")
    if os.path.exists(extra):
        meta.update(json.load(open(extra)))
    json.dump(meta, open(os.path.join(out, "meta.json"), "w"), indent=1)

main()
