#!/bin/bash
# sweep_seeds.sh: re-check every seeded change against the committed checks and the current /repo HEAD
# (two streams side by side), recording seeded/<name>/recheck.json; then rewrite the DESIGN.md table.
cd /verif
ls seeded | grep -E '^C[0-9]+-s[0-9]+$' | sort > /tmp/sweep_all.txt
awk 'NR%2==1' /tmp/sweep_all.txt > /tmp/sweep_a.txt
awk 'NR%2==0' /tmp/sweep_all.txt > /tmp/sweep_b.txt
(for s in $(cat /tmp/sweep_a.txt); do RECORD=1 ./tools/recheck_seed.sh $s; done > /tmp/sweep_a.out 2>&1) &
(for s in $(cat /tmp/sweep_b.txt); do RECORD=1 ./tools/recheck_seed.sh $s; done > /tmp/sweep_b.out 2>&1) &
wait
python3 tools/gen_seed_table.py
grep -h "check_exit" /tmp/sweep_a.out /tmp/sweep_b.out | awk '{print $2}' | sort | uniq -c
